# OpenMP in the engine (DESIGN 3.5).  clang lowers the pragmas to __kmpc_* calls; the models below implement the
# source-level OpenMP semantics those calls encode.
#   team mode  : a parallel region is run by T concrete threads one after another (regions without inner barriers):
#                libomp's static schedule, reductions combined under the runtime's lock
#   race mode  : ONE abstract thread runs the region; the selected work-sharing loop executes ONE iteration whose number
#                is a symbolic integer, all other loops are skipped; every access to an object that exists outside the
#                region is logged with its (symbolic) address, phase (barrier count) and path condition
from fractions import Fraction
from .interp import *
from .terms import *
from . import smt


def _s(x, bits):
    return x - (1 << bits) if isinstance(x, int) and x >> (bits - 1) else x


class Omp:
    def __init__(s, mode, threads=1, sel_loop=None, sel_region=0):
        s.mode = mode
        s.T = threads
        s.sel_loop = sel_loop
        s.sel_region = sel_region
        s.region_count = 0
        s.in_region = False
        s.tid = 0
        s.team = 1
        s.phase = 0
        s.loop_ctr = 0
        s.cur_loop = None
        s.records = []
        s.loops = {}
        s.first_private_obj = None
        s.atomic = 0
        s.havoc_ctr = 0
        s.private_objs = set()
        s.armed = False


def install(m, mode, threads=1, sel_loop=None, sel_region=0):
    o = Omp(mode, threads, sel_loop, sel_region)
    m.omp = o
    E = m.ext
    E['@__kmpc_fork_call'] = fork_call
    E['@__kmpc_global_thread_num'] = lambda m, loc: m.omp.tid
    E['@__kmpc_serialized_parallel'] = serialized_begin
    E['@__kmpc_end_serialized_parallel'] = serialized_end
    E['@__kmpc_for_static_init_4'] = lambda m, *a: static_init(m, 32, True, *a)
    E['@__kmpc_for_static_init_4u'] = lambda m, *a: static_init(m, 32, False, *a)
    E['@__kmpc_for_static_init_8'] = lambda m, *a: static_init(m, 64, True, *a)
    E['@__kmpc_for_static_init_8u'] = lambda m, *a: static_init(m, 64, False, *a)
    E['@__kmpc_for_static_fini'] = static_fini
    E['@__kmpc_barrier'] = barrier
    E['@__kmpc_reduce_nowait'] = reduce_begin
    E['@__kmpc_end_reduce_nowait'] = reduce_end
    E['@__kmpc_reduce'] = reduce_begin
    E['@__kmpc_end_reduce'] = reduce_end
    E['@__kmpc_push_num_threads'] = lambda m, loc, gtid, n: 0
    E['@__kmpc_critical'] = lambda m, *a: _atomic(m, +1)
    E['@__kmpc_end_critical'] = lambda m, *a: _atomic(m, -1)
    E['@omp_get_thread_num'] = lambda m: m.omp.tid
    E['@vrace_begin'] = lambda m: setattr(m.omp, 'armed', True)
    E['@omp_get_num_threads'] = lambda m: m.omp.team
    if mode == 'race':
        m.access_hook = race_access
    return o


def _atomic(m, d):
    m.omp.atomic += d
    return 0


def fork_call(m, loc, nargs, fn, *args):
    o = m.omp
    name = fn.name if isinstance(fn, FnPtr) else None
    if name is None:
        raise EngineError('__kmpc_fork_call through a non-function')
    if o.in_region:
        raise EngineError('nested parallel region')
    if o.mode == 'race' and not o.armed:
        # before the harness calls vrace_begin(): set-up code, executed normally by one thread and not analysed
        o.in_region = True
        o.cur_region = -100
        try:
            g0 = m.alloc(4, 'heap', 'omp-gtid')
            m.store(g0, 0, 4)
            m.call(name, [g0, g0] + list(args))
        finally:
            o.in_region = False
        return None
    region = o.region_count
    o.region_count += 1
    T = m.nthreads if o.mode == 'team' else 1
    if isinstance(T, Term):
        raise EngineError('symbolic thread count')
    o.in_region = True
    o.team = max(1, T)
    o.phase = 0
    o.loop_ctr = 0
    o.first_private_obj = len(m.objs)
    o.cur_region = region
    try:
        for tid in range(o.team):
            o.tid = tid
            o.loop_ctr = 0
            g = m.alloc(4, 'heap', 'omp-gtid')
            m.store(g, tid, 4)
            m.call(name, [g, g] + list(args))
    finally:
        o.in_region = False
        o.tid = 0
        o.team = 1
        o.cur_loop = None
    if o.mode == 'race' and region == o.sel_region:
        # the region under analysis is complete; what follows would run on havocked data
        raise PathEnd('return', 'selected parallel region analysed')
    return None


def serialized_begin(m, loc, gtid):
    """'#pragma omp parallel if (n > 10000)' with a false condition: the outlined body is called directly.  In race mode
    the region is analysed all the same (for larger vectors the very same body runs in parallel)."""
    o = m.omp
    if o.mode != 'race' or not o.armed or o.in_region:
        return 0
    o.cur_region = o.region_count
    o.region_count += 1
    o.in_region = True
    o.serialized = True
    o.phase = 0
    o.loop_ctr = 0
    o.first_private_obj = len(m.objs)
    return 0


def serialized_end(m, loc, gtid):
    o = m.omp
    if o.mode != 'race' or not getattr(o, 'serialized', False):
        return 0
    o.serialized = False
    o.in_region = False
    o.cur_loop = None
    if o.cur_region == o.sel_region:
        raise PathEnd('return', 'selected parallel region analysed')
    return 0


def static_init(m, bits, signed, loc, gtid, sched, plast, plower, pupper, pstride, incr, chunk):
    o = m.omp
    ty = IntT(bits)
    n = bits // 8
    lo = m.load(plower, n, ty)
    up = m.load(pupper, n, ty)
    if isinstance(lo, Term) or isinstance(up, Term):
        raise EngineError('work-sharing loop with symbolic bounds')
    if signed:
        lo, up = _s(lo, bits), _s(up, bits)
    M = (1 << bits) - 1
    lid = o.loop_ctr
    o.loop_ctr += 1
    trip = up - lo + 1
    if o.mode == 'team' or not o.in_region or (o.mode == 'race' and o.cur_region != o.sel_region):
        # team mode; or (race mode) a region that is not the one under analysis: executed normally by one thread
        T, tid = (o.team, o.tid) if (o.in_region and o.mode == 'team') else (1, 0)
        if trip <= 0:
            return None
        if trip < T:
            if tid < trip:
                l2 = u2 = lo + tid
            else:
                l2, u2 = up + 1, up
        else:
            small, extra = trip // T, trip % T
            l2 = lo + tid * small + min(tid, extra)
            u2 = l2 + small - 1 + (1 if tid < extra else 0)
        m.store(plower, l2 & M, n)
        m.store(pupper, u2 & M, n)
        m.store(plast, 1 if u2 == up else 0, 4)
        return None
    # ---- race mode
    key = (o.cur_region, lid)
    o.loops[key] = dict(lo=lo, up=up, phase=o.phase, fn=m.stack[-1])
    selected = (o.cur_region == o.sel_region) and (o.sel_loop is None or o.sel_loop == lid)
    if not selected or trip <= 0:
        m.store(plower, (up + 1) & M, n)
        m.store(pupper, up & M, n)
        o.cur_loop = None
        return None
    it = sym(f'it_r{o.cur_region}_l{lid}', 'I')
    m.syms[it.args[0]] = it
    m.assume(mk_cmp('le', lo, it))
    m.assume(mk_cmp('le', it, up))
    m.store(plower, it, n)
    m.store(pupper, it, n)
    m.store(plast, 0, 4)
    o.cur_loop = key
    return None


def static_fini(m, loc, gtid):
    m.omp.cur_loop = None
    return None


def barrier(m, loc, gtid):
    o = m.omp
    if o.mode == 'team' and o.team > 1 and o.in_region:
        raise EngineError('explicit barrier inside a region in team mode (threads run one after another)')
    o.phase += 1
    return None


def reduce_begin(m, loc, gtid, nvars, size, data, fn, lck):
    m.omp.atomic += 1
    return 1


def reduce_end(m, loc, gtid, lck):
    m.omp.atomic -= 1
    return None


def race_access(m, rw, p, n, arg):
    """log accesses to objects that exist outside the parallel region; doubles read from them are havocked"""
    o = m.omp
    if not o.in_region or o.cur_region != o.sel_region:
        return None
    if p.obj == 0 or p.obj >= o.first_private_obj:
        return None
    if getattr(o, 'serialized', False) and not any('omp_outlined' in fn for fn in m.stack):
        return None      # bookkeeping of the serialised call in the encountering thread's frame, not part of the region body
    ob = m.objs[p.obj]
    if ob.name in ('omp-gtid', 'harness-args') or ob.kind == 'global' and ob.name.startswith('@.'):
        return None
    sym_off = isinstance(p.off, Term)
    is_real = False
    block = (rw == 'R' and arg is None)      # range read of a block copy: logged only
    if rw == 'R':
        t = res(arg) if arg is not None else None
        is_real = isinstance(t, FloatT)
    else:
        is_real = isinstance(arg, (Fraction, float)) or (isinstance(arg, Term) and arg.sort == 'R')
    if not o.atomic:
        o.records.append(dict(rw=rw, obj=p.obj, objname=f'{ob.kind}:{ob.name[-60:]}', off=p.off, size=n, phase=o.phase, loop=o.cur_loop,
                              nass=len(m.assumptions), where=m.stack[-1] if m.stack else '', real=is_real))
    if block:
        return None
    if rw == 'R':
        if is_real and (sym_off or True):
            # value of a shared double: arbitrary (it cannot influence an address)
            o.havoc_ctr += 1
            h = sym(f'hv{o.havoc_ctr}', 'R')
            m.syms[h.args[0]] = h
            return h
        return None
    # doubles stored at symbolic addresses are only logged (their values are irrelevant); integers and pointers stored at
    # symbolic addresses are performed (conditional update / offset concretisation) so that the same iteration reads them back
    if sym_off and is_real:
        return True
    return None


# --------------------------------------------------------------------------------------------- serialisation
def serialise_path(m, path_id):
    """records of one path as SMT text fragments (definitions shared per path)"""
    o = m.omp
    recs = o.records
    roots = [r['off'] for r in recs if isinstance(r['off'], Term)] + [a for a in m.assumptions if isinstance(a, Term)]
    ts = reachable(roots)
    name_of = {}
    decls = []
    defs = []
    for t in ts:
        if t.op == 'sym':
            name_of[t.id] = t.args[0]
            decls.append((t.args[0], smt.SORTN[t.sort]))
        else:
            nm = f't{t.id}'
            defs.append(f'(define-fun {nm} () {smt.SORTN[t.sort]} {smt.expr(t, name_of)})')
            name_of[t.id] = nm
    ass = [name_of[a.id] if isinstance(a, Term) else ('true' if a else 'false') for a in m.assumptions]
    out = []
    seen = set()
    for r in recs:
        off = name_of[r['off'].id] if isinstance(r['off'], Term) else smt.num(r['off'], 'I')
        key = (r['rw'], r['obj'], off, r['size'], r['phase'], r['loop'], r['nass'])
        if key in seen:
            continue
        seen.add(key)
        out.append(dict(rw=r['rw'], obj=r['obj'], objname=r['objname'], off=off, size=r['size'], phase=r['phase'], loop=list(r['loop']) if r['loop'] else None,
                        nass=r['nass'], where=r['where']))
    return dict(path=path_id, decls=decls, defs=defs, assumptions=ass, records=out, loops={f'{k[0]}:{k[1]}': v for k, v in o.loops.items()})


# --------------------------------------------------------------------------------------------- conflict queries
import os, re


def _rename(text, suffix):
    return re.sub(r'\b(t\d+|it_r\d+_l\d+|hv\d+|[A-Za-z]+_-?\d+_-?\d+)\b', lambda mm: mm.group(1) + suffix, text)


def race_queries(summary, job, workdir):
    """conflict queries for one job: for every parallel region, every phase, every pair of path summaries (two iterations
    of one loop, iterations of two loops of the same phase, replicated code) and every shared object: is there a pair of
    accesses, at least one a write, to overlapping bytes?  sat = data race (the two iterations / threads are unordered)."""
    out = []
    paths = summary.get('omp_paths', [])
    by_region = {}
    for p in paths:
        by_region.setdefault(p['region'], []).append(p)
    qid = 0
    for region, plist in sorted(by_region.items()):
        for ia in range(len(plist)):
            for ib in range(ia, len(plist)):
                A, B = plist[ia], plist[ib]
                same_loop = (A['loop'] == B['loop'])
                # group records by (phase, obj)
                ra = {}
                for r in A['records']:
                    ra.setdefault((r['phase'], r['obj']), []).append(r)
                rb = {}
                for r in B['records']:
                    rb.setdefault((r['phase'], r['obj']), []).append(r)
                for key in sorted(set(ra) & set(rb)):
                    la, lb = ra[key], rb[key]
                    if not any(r['rw'] == 'W' for r in la) and not any(r['rw'] == 'W' for r in lb):
                        continue
                    # the access belongs to the selected loop (symbolic iteration) or to replicated code (loop None)
                    pairs = []
                    for x in la:
                        for y in lb:
                            if x['rw'] != 'W' and y['rw'] != 'W':
                                continue
                            xl = tuple(x['loop']) if x['loop'] else None
                            yl = tuple(y['loop']) if y['loop'] else None
                            if xl is None and yl is None and A is B and x is y and x['rw'] == 'R':
                                continue
                            pairs.append((x, y, xl, yl))
                    if not pairs:
                        continue
                    sfx = '__b'
                    lines = ['(set-logic QF_LIA)'] if False else []
                    names = []
                    for (nm, srt) in A['decls']:
                        lines.append(f'(declare-fun {nm} () {srt})')
                        names.append(nm)
                    for (nm, srt) in B['decls']:
                        lines.append(f'(declare-fun {nm}{sfx} () {srt})')
                        names.append(nm + sfx)
                    lines += A['defs']
                    lines += [_rename(dd, sfx) for dd in B['defs']]
                    for a_ in A['assumptions']:
                        lines.append(f'(assert {a_})')
                    for b_ in B['assumptions']:
                        lines.append(f'(assert {_rename(b_, sfx)})')
                    disj = []
                    for (x, y, xl, yl) in pairs:
                        ox, oy = x['off'], _rename(y['off'], sfx)
                        c = f'(and (< {ox} (+ {oy} {y["size"]})) (< {oy} (+ {ox} {x["size"]}))'
                        if xl is not None and xl == yl:
                            itn = f'it_r{xl[0]}_l{xl[1]}'
                            c += f' (not (= {itn} {itn}{sfx}))'      # two DIFFERENT iterations of the same loop
                        c += ')'
                        disj.append(c)
                    lines.append('(assert (or ' + ' '.join(disj) + '))' if len(disj) > 1 else f'(assert {disj[0]})')
                    lines.append('(check-sat)')
                    its = [n for n in names if n.startswith('it_r')]
                    if its:
                        lines.append('(get-value (' + ' '.join(its) + '))')
                    f = os.path.join(workdir, f'race_r{region}_q{qid}.smt2')
                    qid += 1
                    open(f, 'w').write('\n'.join(lines) + '\n')
                    objname = la[0]['objname']
                    wa = sorted(set(x['where'][-50:] for x in la if x['rw'] == 'W'))[:2]
                    out.append(dict(path=A['path'], kind='race', file=f, logic=None, hinted=False,
                                    goals=[dict(tag=f'race:{objname}:phase{key[0]}:loops{A["loop"]}/{B["loop"]}', k=qid, kind='race', extra=dict(writers=wa, pairs=len(pairs)))]))
    return out
