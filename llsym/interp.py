# Symbolic interpreter for LLVM-14 IR.  double -> exact real term (mode 'real') or Python float (mode 'float',
# used for the bit-for-bit differential against the native build).
import math, sys
from fractions import Fraction
from .ir import *
from .terms import *

sys.setrecursionlimit(200000)


class SafetyEvent(Exception):
    """a violation of memory safety / initialisation / an internal assertion of the code under test"""
    def __init__(s, kind, msg):
        Exception.__init__(s, f'{kind}: {msg}')
        s.kind = kind
        s.msg = msg
        s.stack = None


class EngineError(Exception):
    """the engine cannot interpret something: the run is inconclusive, never a verdict"""


class PathEnd(Exception):
    def __init__(s, outcome, detail=''):
        Exception.__init__(s, f'{outcome} {detail}')
        s.outcome = outcome
        s.detail = detail


class Ptr:
    __slots__ = ('obj', 'off')

    def __init__(s, obj, off):
        s.obj = obj
        s.off = off

    def __eq__(s, o):
        return isinstance(o, Ptr) and s.obj == o.obj and s.off == o.off

    def __hash__(s):
        return hash((s.obj, s.off if not isinstance(s.off, Term) else s.off.id))

    def __repr__(s):
        return f'&{s.obj}+{s.off}'


NULL = Ptr(0, 0)


class FnPtr:
    __slots__ = ('name',)

    def __init__(s, name):
        s.name = name

    def __eq__(s, o):
        return isinstance(o, FnPtr) and s.name == o.name

    def __hash__(s):
        return hash(s.name)

    def __repr__(s):
        return f'fn{s.name}'


class Bits:
    """bit pattern of a double carried through an integer register"""
    __slots__ = ('v',)

    def __init__(s, v):
        s.v = v


class Undef:
    def __repr__(s):
        return 'undef'


UNDEF = Undef()


class Obj:
    __slots__ = ('size', 'cells', 'zero', 'kind', 'freed', 'name', 'shared')

    def __init__(s, size, kind, name=''):
        s.size = size
        s.cells = {}
        s.zero = []
        s.kind = kind
        s.freed = False
        s.name = name
        s.shared = True


PTRBITS = 40


def split_const(t):
    """integer term -> (constant part, rest) for terms of the form c + rest"""
    if isinstance(t, int):
        return t, 0
    if isinstance(t, Term) and t.op == 'iadd':
        a, b = t.args
        if isinstance(a, int):
            return a, b
        if isinstance(b, int):
            return b, a
    return 0, t


def ptr_to_int(p):
    if isinstance(p.off, Term):
        return imk('add', p.obj << PTRBITS, p.off)
    return (p.obj << PTRBITS) + p.off


def int_to_ptr(v):
    if isinstance(v, Term):
        c, rest = split_const(v)
        if c >> PTRBITS == 0:
            raise EngineError('inttoptr of a symbolic integer that is not object base + offset')
        return Ptr(c >> PTRBITS, imk('add', c & ((1 << PTRBITS) - 1), rest))
    return Ptr(v >> PTRBITS, v & ((1 << PTRBITS) - 1))


class Machine:
    def __init__(s, mod, mode='real'):
        s.mod = mod
        s.mode = mode
        s.objs = [None]
        s.gaddr = {}
        s.nthreads = 1
        s.steps = 0
        s.max_steps = 400_000_000
        s.stack = []
        s.fn_steps = {}
        s.cov = {}
        s.decimal_literals = False
        # harness interface
        s.obligations = []      # dict(kind,a,b,tag,k,nass,ndiv)
        s.assumptions = []      # Bool terms: vassume + path conditions, in order
        s.divisors = []         # real terms the code divided by
        s.int_ranges = []       # (term, bits, kind) obligations for symbolic integer arithmetic
        s.reached = set()
        s.outs = []
        s.syms = {}
        s.inputs = None         # float/replay mode: callable(fam,i,j)->float ; int inputs: callable(name,lo,hi)->int
        s.int_inputs = None
        # forking
        s.prefix = ()
        s.taken = []
        s.pending = []
        s.known = {}
        s.feas = None
        s.ext = {}
        s.ext_prefix = []
        s.ext_hits = {}
        s.libm_small = False
        s.libm_log = {}
        s.sym_access = Machine.default_sym_access     # handler for accesses at symbolic offsets (race mode / ite chains)
        s.events = []
        s.choice_ctr = {}
        s.fork_int_selects = False
        s.concretize = False
        s.access_hook = None
        s.enum_values = None
        s.choice_log = []

    # ------------------------------------------------------------------ memory
    def alloc(s, size, kind, name=''):
        if isinstance(size, Term):
            raise EngineError('allocation of symbolic size')
        s.objs.append(Obj(size, kind, name))
        return Ptr(len(s.objs) - 1, 0)

    def obj(s, p, n):
        if not isinstance(p, Ptr):
            if p is UNDEF:
                raise SafetyEvent('uninit', 'dereference of an uninitialised pointer')
            raise SafetyEvent('badptr', f'dereference of non-pointer {p}')
        if p.obj == 0:
            raise SafetyEvent('null', 'null pointer dereference')
        o = s.objs[p.obj]
        if o.freed:
            raise SafetyEvent('use-after-free', f'object {p.obj} ({o.kind} {o.name})')
        if p.off < 0 or p.off + n > o.size:
            raise SafetyEvent('out-of-bounds', f'object {p.obj} ({o.kind} {o.name}) size {o.size}: access [{p.off},{p.off + n})')
        return o

    def store(s, p, v, n):
        if s.access_hook is not None and isinstance(p, Ptr):
            if s.access_hook(s, 'W', p, n, v):
                return
        if isinstance(p, Ptr) and isinstance(p.off, Term):
            return s.sym_access(s, 'W', p, n, v)
        o = s.obj(p, n)
        off = p.off
        c = o.cells.get(off)
        if c is not None and c[1] == n:
            o.cells[off] = (v, n)
            return
        s._clear(o, off, n)
        o.cells[off] = (v, n)

    def default_sym_access(s, rw, p, n, arg):
        """access at a symbolic offset: bounds become an obligation; a load is an ite chain over the cells of that size,
        a store updates every candidate cell conditionally"""
        if p.obj == 0:
            raise SafetyEvent('null', 'null pointer dereference (symbolic offset)')
        o = s.objs[p.obj]
        if o.freed:
            raise SafetyEvent('use-after-free', f'object {p.obj} ({o.kind} {o.name})')
        off = p.off
        inb = mk_and(mk_cmp('le', 0, off), mk_cmp('le', off, o.size - n))
        s.int_ranges.append((inb, 1, 'inbounds', s.stack[-1] if s.stack else ''))
        cand = sorted(k for k, c in o.cells.items() if isinstance(k, int) and c[1] == n)
        zero_cand = []
        for (a, b) in o.zero:
            k = a + (-a % n)
            while k + n <= b:
                zero_cand.append(k)
                k += n
        # the offset is c0 + k * (one integer atom) in almost every case: only offsets congruent to c0 mod k can be hit
        c0_, lin_ = int_linear(off)
        if len(lin_) == 1:
            k_ = abs(list(lin_.values())[0][0])
            if k_ > 1:
                cand = [x for x in cand if (x - c0_) % k_ == 0]
                zero_cand = [x for x in zero_cand if (x - c0_) % k_ == 0]
        if len(cand) + len(zero_cand) > 4096:
            raise EngineError('symbolic-offset access into an object with more than 4096 candidate cells')
        if rw == 'R':
            ty = arg
            res = None
            keys = sorted(set(cand) | set(zero_cand))
            if not keys:
                return UNDEF
            for k in reversed(keys):
                v = o.cells[k][0] if k in o.cells else s.zero_of(ty)
                if v is UNDEF:
                    continue
                if res is None:
                    res = v
                    continue
                c = mk_cmp('eq', off, k)
                if isinstance(v, Ptr) or isinstance(res, Ptr):
                    res = v if s.decide(c) else res
                else:
                    srt = 'R' if (isinstance(v, Fraction) or (isinstance(v, Term) and v.sort == 'R')) else 'I'
                    res = mk_ite(c, v, res, srt)
            return UNDEF if res is None else res
        v = arg
        if isinstance(v, (Ptr, FnPtr)) or any(isinstance(o.cells[k][0], (Ptr, FnPtr)) for k in cand):
            # storing a pointer (or over pointers): concretise the offset by forking over the candidate cells
            keys = sorted(set(cand) | set(zero_cand))
            for k in keys[:-1]:
                if s.decide(mk_cmp('eq', off, k)):
                    return s.store(Ptr(p.obj, k), v, n)
            if keys:
                s.assume(mk_cmp('eq', off, keys[-1]))
                return s.store(Ptr(p.obj, keys[-1]), v, n)
            raise SafetyEvent('out-of-bounds', f'store at a symbolic offset into object {p.obj} with no candidate cell')
        for k in sorted(set(cand) | set(zero_cand)):
            c = mk_cmp('eq', off, k)
            old = o.cells[k][0] if k in o.cells else (Fraction(0) if isinstance(v, (Fraction, Term)) and not isinstance(v, int) else 0)
            if k not in o.cells:
                s._clear(o, k, n)
            if old is UNDEF:
                old = v
            srt = 'R' if (isinstance(v, Fraction) or (isinstance(v, Term) and v.sort == 'R')) else 'I'
            o.cells[k] = (mk_ite(c, v, old, srt), n)
        return None

    def _clear(s, o, off, n):
        cells = o.cells
        for k in range(max(0, off - 7), off + n):
            c = cells.get(k)
            if c is None:
                continue
            if k + c[1] <= off:
                continue
            if k >= off and k + c[1] <= off + n:
                del cells[k]
            else:
                # partial overwrite of a wider/narrower cell: split raw ints, otherwise give up
                if isinstance(c[0], int) and not isinstance(c[0], bool):
                    del cells[k]
                    for b in range(c[1]):
                        cells[k + b] = ((c[0] >> (8 * b)) & 255, 1)
                    for b in range(max(k, off), min(k + c[1], off + n)):
                        cells.pop(b, None)
                else:
                    raise EngineError(f'partial overwrite of a non-integer cell in object {o.name}')
        if o.zero:
            nz = []
            for (a, b) in o.zero:
                if b <= off or a >= off + n:
                    nz.append((a, b))
                else:
                    if a < off:
                        nz.append((a, off))
                    if b > off + n:
                        nz.append((off + n, b))
            o.zero = nz

    def load(s, p, n, ty):
        if s.access_hook is not None and isinstance(p, Ptr):
            r = s.access_hook(s, 'R', p, n, ty)
            if r is not None:
                return r
        if isinstance(p, Ptr) and isinstance(p.off, Term):
            return s.sym_access(s, 'R', p, n, ty)
        o = s.obj(p, n)
        c = o.cells.get(p.off)
        if c is not None:
            if c[1] == n:
                return c[0]
            if c[1] > n and isinstance(c[0], int):
                return c[0] & ((1 << (8 * n)) - 1)
            if c[1] < n and isinstance(c[0], int):
                # assemble from bytes/smaller int cells
                return s._assemble(o, p.off, n, ty)
            raise EngineError(f'size-mismatched load from {o.name} off {p.off}: cell {c[1]} bytes, load {n}')
        for (a, b) in o.zero:
            if a <= p.off and p.off + n <= b:
                return s.zero_of(ty)
        # maybe inside a wider int cell or spanning byte cells
        for k in range(max(0, p.off - 7), p.off):
            c = o.cells.get(k)
            if c is not None and k + c[1] >= p.off + n and isinstance(c[0], int):
                return (c[0] >> (8 * (p.off - k))) & ((1 << (8 * n)) - 1)
        if any((p.off + b) in o.cells for b in range(1, n)):
            return s._assemble(o, p.off, n, ty)
        return UNDEF

    def _assemble(s, o, off, n, ty):
        v = 0
        b = 0
        while b < n:
            c = o.cells.get(off + b)
            if c is None:
                z = any(a <= off + b < e for (a, e) in o.zero)
                if not z:
                    return UNDEF
                b += 1
                continue
            if not isinstance(c[0], int):
                raise EngineError('assembling a load from non-integer cells')
            v |= c[0] << (8 * b)
            b += c[1]
        return v & ((1 << (8 * n)) - 1)

    def zero_of(s, ty):
        t = res(ty)
        if isinstance(t, IntT):
            return 0
        if isinstance(t, FloatT):
            return 0.0 if s.mode == 'float' else Fraction(0)
        if isinstance(t, PtrT):
            return NULL
        raise EngineError(f'zero_of {t}')

    def memset(s, p, val, n):
        if isinstance(n, Term) and s.enum_values is not None:
            n = s.concretize_int(n)          # fork over the feasible sizes
        if isinstance(n, Term) or isinstance(val, Term):
            raise EngineError('memset with symbolic size/value')
        if isinstance(p, Ptr) and isinstance(p.off, Term):
            if s.access_hook is None:
                raise EngineError('memset at a symbolic address')
            if n:
                s.access_hook(s, 'W', p, n, 0)
            return
        if s.access_hook is not None and n:
            s.access_hook(s, 'W', p, n, 0)
        if n == 0:
            return
        o = s.obj(p, n)
        for k in [k for k in o.cells if k < p.off + n and k + o.cells[k][1] > p.off]:
            c = o.cells[k]
            if k < p.off or k + c[1] > p.off + n:
                raise EngineError('memset partially overwrites a cell')
            del o.cells[k]
        if val == 0:
            o.zero.append((p.off, p.off + n))
        else:
            for i in range(n):
                o.cells[p.off + i] = (val, 1)

    def memcpy(s, d, sp, n):
        if isinstance(n, Term):
            raise EngineError('memcpy of symbolic size')
        if n == 0:
            return
        if (isinstance(sp, Ptr) and isinstance(sp.off, Term)) or (isinstance(d, Ptr) and isinstance(d.off, Term)):
            # block copy at a symbolic address (race mode): the ranges are logged, the data are havocked
            if s.access_hook is None:
                raise EngineError('memcpy at a symbolic address')
            s.access_hook(s, 'R', sp, n, None)
            s.access_hook(s, 'W', d, n, Fraction(0))
            if not isinstance(d.off, Term):
                do = s.obj(d, n)
                s._clear(do, d.off, n)
                for k in range(0, n - 7, 8):
                    s.havoc_ctr = getattr(s, 'havoc_ctr', 0) + 1
                    do.cells[d.off + k] = (sym(f'hvm{s.havoc_ctr}', 'R'), 8)
            return
        if s.access_hook is not None:
            s.access_hook(s, 'R', sp, n, None)
            s.access_hook(s, 'W', d, n, Fraction(0))
        so = s.obj(sp, n)
        do = s.obj(d, n)
        items = [(k, v) for k, v in so.cells.items() if k < sp.off + n and k + v[1] > sp.off]
        for k, v in items:
            if k < sp.off or k + v[1] > sp.off + n:
                raise EngineError('memcpy splits a cell')
        zr = [(max(a, sp.off), min(b, sp.off + n)) for (a, b) in so.zero if a < sp.off + n and b > sp.off]
        for k in [k for k in do.cells if k < d.off + n and k + do.cells[k][1] > d.off]:
            c = do.cells[k]
            if k < d.off or k + c[1] > d.off + n:
                raise EngineError('memcpy partially overwrites a cell')
            del do.cells[k]
        nz = []
        for (a, b) in do.zero:
            if b <= d.off or a >= d.off + n:
                nz.append((a, b))
            else:
                if a < d.off:
                    nz.append((a, d.off))
                if b > d.off + n:
                    nz.append((d.off + n, b))
        do.zero = nz
        delta = d.off - sp.off
        for (a, b) in zr:
            do.zero.append((a + delta, b + delta))
        for k, v in items:
            do.cells[k + delta] = v

    # ------------------------------------------------------------------ globals / constants
    def global_ptr(s, name):
        p = s.gaddr.get(name)
        if p is not None:
            return p
        if name in s.mod.funcs or name in s.mod.decls:
            return FnPtr(name)
        if name in s.mod.aliases:
            return s.const(None, s.mod.aliases[name])
        g = s.mod.globals.get(name)
        if g is None:
            raise EngineError(f'unknown global {name}')
        t, init, _ = g
        p = s.alloc(sizeof(t), 'global', name)
        s.gaddr[name] = p
        if init is not None:
            s.write_const(p, t, init)
        else:
            s.objs[p.obj].zero.append((0, sizeof(t)))
            if name in ('@_ZSt4cout', '@_ZSt4cerr', '@_ZSt4clog'):
                s._fake_ostream(p)
        return p

    def _fake_ostream(s, p):
        """std::cout & co. have no initialiser in the module.  Inlined std::endl reads the stream's virtual-base offset and
        its ctype facet (widen('\\n')) before calling put/flush (which are no-op stubs): give those loads benign values."""
        vt = s.alloc(64, 'global', 'fake-ostream-vtable')
        s.objs[vt.obj].zero.append((0, 64))
        s.store(Ptr(vt.obj, 0), 8, 8)                      # vbase offset of basic_ios inside basic_ostream
        s._clear(s.objs[p.obj], 0, 8)
        s.store(Ptr(p.obj, 0), Ptr(vt.obj, 24), 8)         # vptr -> vtable + 24  (offset -24 holds the vbase offset)
        ct = s.alloc(600, 'global', 'fake-ctype')
        s.objs[ct.obj].zero.append((0, 600))
        s._clear(s.objs[ct.obj], 56, 1)
        s.store(Ptr(ct.obj, 56), 1, 1)                     # _M_widen_ok
        for ch in range(256):
            s._clear(s.objs[ct.obj], 57 + ch, 1)
            s.store(Ptr(ct.obj, 57 + ch), ch, 1)           # _M_widen table = identity
        s._clear(s.objs[p.obj], 8 + 240, 8)
        s.store(Ptr(p.obj, 8 + 240), ct, 8)                # basic_ios::_M_ctype

    def write_const(s, p, t, c):
        t = res(t)
        k = c[0]
        if k == 'zero':
            s.memset(p, 0, sizeof(t))
            return
        if k == 'undef':
            return
        if k == 'bytes':
            for i, b in enumerate(c[1]):
                s.store(Ptr(p.obj, p.off + i), b, 1)
            return
        if k == 'agg':
            if isinstance(t, StructT):
                offs, _ = struct_layout(t)
                for (ft, fv), o in zip(c[1], offs):
                    s.write_const(Ptr(p.obj, p.off + o), ft, fv)
            else:
                es = sizeof(t.el)
                for i, (et, ev) in enumerate(c[1]):
                    s.write_const(Ptr(p.obj, p.off + i * es), et, ev)
            return
        s.store(p, s.const(t, c), sizeof(t))

    def const(s, t, c):
        k = c[0]
        if k == 'const':
            rt = res(t) if t is not None else None
            if isinstance(rt, IntT):
                return c[1] & ((1 << rt.bits) - 1)
            return c[1]
        if k == 'fconst':
            v = c[1]
            if s.mode == 'float':
                return float(v)
            if isinstance(v, float) and (v != v or v in (math.inf, -math.inf)):
                # NaN / infinity literals have no real value: a distinguished symbol (only stored and observed, never decided on)
                return sym('__nan__' if v != v else ('__inf__' if v > 0 else '__neginf__'), 'R')
            if s.decimal_literals and isinstance(v, float):
                # job option: a double literal is read as the shortest decimal that round-trips to it (what the programmer
                # wrote), when that decimal has at most 9 significant digits; otherwise its exact binary value
                d = repr(v)
                mant = d.split('e')[0].replace('-', '').replace('.', '').strip('0')
                if len(mant) <= 9:
                    return Fraction(d)
            return Fraction(v)
        if k == 'meta':
            return None
        if k == 'null':
            return NULL
        if k == 'undef':
            rt = res(t) if t is not None else None
            if isinstance(rt, (StructT, ArrT)):
                return None
            return UNDEF
        if k == 'zero':
            rt = res(t)
            if isinstance(rt, (StructT, ArrT)):
                return s.zero_agg(rt)
            return s.zero_of(t)
        if k == 'global':
            return s.global_ptr(c[1])
        if k == 'ccast':
            v = s.const(c[2], c[3])
            if c[1] == 'ptrtoint' and isinstance(v, Ptr):
                return ptr_to_int(v)
            if c[1] == 'inttoptr' and isinstance(v, int):
                return int_to_ptr(v)
            return v
        if k == 'cgep':
            base = s.const(c[2][0][0], c[2][0][1])
            idx = [s.const(tt, vv) for tt, vv in c[2][1:]]
            return s.gep(c[1], base, idx, [tt for tt, vv in c[2][1:]])
        if k == 'agg':
            return [s.const(tt, vv) for tt, vv in c[1]]
        raise EngineError(f'const {c}')

    def zero_agg(s, rt):
        if isinstance(rt, StructT):
            return [s.zero_agg(res(f)) if isinstance(res(f), (StructT, ArrT)) else s.zero_of(f) for f in rt.fields]
        return [s.zero_agg(res(rt.el)) if isinstance(res(rt.el), (StructT, ArrT)) else s.zero_of(rt.el) for _ in range(rt.n)]

    def gep(s, bt, base, idx, tys=None):
        off = 0
        t = bt
        first = True
        for k, i in enumerate(idx):
            if i is UNDEF:
                raise SafetyEvent('uninit', 'address computed from an uninitialised index')
            if isinstance(i, int):
                if tys is not None:
                    b = res(tys[k]).bits
                    if i >= 1 << (b - 1):
                        i -= 1 << b
            elif not isinstance(i, Term):
                raise EngineError(f'gep index {i}')
            if first:
                off = imk('add', off, imk('mul', i, sizeof(t)))
                first = False
            else:
                t = res(t)
                if isinstance(t, StructT):
                    offs, _ = struct_layout(t)
                    off = imk('add', off, offs[i])
                    t = t.fields[i]
                elif isinstance(t, (ArrT, VecT)):
                    off = imk('add', off, imk('mul', i, sizeof(t.el)))
                    t = t.el
                else:
                    raise EngineError(f'gep into {t}')
        if isinstance(base, Ptr):
            return Ptr(base.obj, imk('add', base.off, off))
        if base is UNDEF:
            raise SafetyEvent('uninit', 'address computed from an uninitialised pointer')
        raise SafetyEvent('badptr', f'pointer arithmetic on non-pointer {base}')

    # ------------------------------------------------------------------ forking
    def decide(s, c):
        """c: Bool term.  Returns the branch direction taken on this path."""
        kid = c.id
        d = s.known.get(kid)
        if d is not None:
            return d
        k = len(s.taken)
        if k < len(s.prefix):
            d = s.prefix[k]
        else:
            if s.feas is not None:
                ft, ff = s.feas(s, c)
            else:
                ft = ff = True
            if ft and ff:
                d = True
                s.pending.append(tuple(s.taken) + (False,))
            elif ft:
                d = True
            elif ff:
                d = False
            else:
                raise PathEnd('infeasible')
        s.taken.append(d)
        s.assume(c if d else mk_not(c))
        return d

    def choose(s, n, name):
        """concrete n-way choice (history exploration): forks without introducing a solver variable"""
        k = len(s.taken)
        if k < len(s.prefix):
            v = s.prefix[k]
        else:
            v = 0
            for alt in range(1, n):
                s.pending.append(tuple(s.taken) + (alt,))
        s.taken.append(v)
        c = s.choice_ctr.get(name, 0)
        s.choice_ctr[name] = c + 1
        s.choice_log.append((f'{name}#{c}', v))
        return v

    def concretize_int(s, t):
        """KLEE-style concretisation of a symbolic integer: fork over its feasible values under the path condition"""
        if not isinstance(t, Term):
            return t
        k = len(s.taken)
        if k < len(s.prefix):
            v = s.prefix[k]
        else:
            if s.enum_values is None:
                raise EngineError('concretisation requested but no solver callback installed')
            vals = s.enum_values(s, t, 200)
            if not vals:
                raise PathEnd('infeasible')
            v = vals[0]
            for alt in vals[1:]:
                s.pending.append(tuple(s.taken) + (alt,))
        s.taken.append(v)
        s.assume(mk_cmp('eq', t, v))
        return v

    def assume(s, c):
        if not isinstance(c, Term):
            if not c:
                raise PathEnd('assume_false')
            return
        s.assumptions.append(c)
        s.known[c.id] = True
        n = mk_not(c)
        s.known[n.id] = False
        if c.op == 'and':
            for x in c.args:
                if isinstance(x, Term):
                    s.known[x.id] = True
                    s.known[mk_not(x).id] = False

    # ------------------------------------------------------------------ calls
    def call(s, name, args, I=None):
        mod = s.mod
        while name in mod.aliases:
            a = mod.aliases[name]
            while a[0] == 'ccast':
                a = a[3]
            name = a[1]
        h = s.ext.get(name)
        if h is None:
            f = get_func(mod, name)
            if f is not None:
                return s.run(f, args)
            for pre, hh in s.ext_prefix:
                if name.startswith(pre):
                    h = hh
                    break
            if h is None:
                raise EngineError(f'no model for external {name}')
        s.ext_hits[name] = s.ext_hits.get(name, 0) + 1
        return h(s, *args)

    def run(s, f, args):
        regs = {}
        for (t, pn), a in zip(f.params, args):
            regs[pn] = a
        allocas = []
        blocks = f.blocks
        cur = f.order[0]
        prev = None
        s.stack.append(f.name)
        steps0 = s.steps
        const = s.const
        cov = s.cov.get(f.name)
        if cov is None:
            cov = s.cov[f.name] = set()

        def val(t, o):
            if o[0] == 'local':
                return regs[o[1]]
            return const(t, o)
        try:
            while True:
                ins_list = blocks[cur]
                cov.add(cur)
                k = 0
                if ins_list[0].op == 'phi':
                    newv = []
                    while ins_list[k].op == 'phi':
                        I = ins_list[k]
                        for v, lbl in I.args:
                            if lbl == prev:
                                newv.append((I.dst, val(I.ty, v)))
                                break
                        else:
                            raise EngineError(f'phi: no incoming in {f.name} block {cur} prev {prev}')
                        k += 1
                    for d, v in newv:
                        regs[d] = v
                nxt = None
                s.steps += len(ins_list) - k
                for I in ins_list[k:]:
                    op = I.op
                    if op == 'load':
                        p = val(None, I.args[0])
                        regs[I.dst] = s.load_typed(p, I.ty)
                    elif op == 'store':
                        v = val(I.ty, I.args[0])
                        p = val(None, I.args[1])
                        s.store_typed(p, I.ty, v)
                    elif op == 'getelementptr':
                        base = val(I.args[0][0], I.args[0][1])
                        idx = [val(t, o) for t, o in I.args[1:]]
                        regs[I.dst] = s.gep(I.ty, base, idx, [t for t, o in I.args[1:]])
                    elif op in BINOPS:
                        a = val(I.ty, I.args[0])
                        b = val(I.ty, I.args[1])
                        regs[I.dst] = s.binop(op, I.ty, a, b, I.extra)
                    elif op == 'fneg':
                        a = val(I.ty, I.args[0])
                        if a is UNDEF:
                            regs[I.dst] = UNDEF
                        elif isinstance(a, Term):
                            regs[I.dst] = mk('neg', a)
                        else:
                            regs[I.dst] = -a
                    elif op == 'icmp':
                        a = val(I.ty, I.args[0])
                        b = val(I.ty, I.args[1])
                        regs[I.dst] = s.icmp(I.extra, I.ty, a, b)
                    elif op == 'fcmp':
                        a = val(I.ty, I.args[0])
                        b = val(I.ty, I.args[1])
                        regs[I.dst] = s.fcmp(I.extra, a, b)
                    elif op in CASTS:
                        a = val(I.extra, I.args[0])
                        regs[I.dst] = s.cast(op, I.extra, I.ty, a)
                    elif op == 'select':
                        c = val(None, I.args[0])
                        a = val(I.ty, I.args[1])
                        b = val(I.ty, I.args[2])
                        regs[I.dst] = s.select(c, a, b, I.ty)
                    elif op == 'br':
                        nxt = I.extra[0]
                        break
                    elif op == 'condbr':
                        c = val(None, I.args[0])
                        if isinstance(c, Term):
                            c = s.decide(c)
                        elif c is UNDEF:
                            raise SafetyEvent('uninit', f'branch on an uninitialised value in {f.name}')
                        nxt = I.extra[0] if c else I.extra[1]
                        break
                    elif op == 'switch':
                        v = val(I.ty, I.args[0])
                        d, cases = I.extra
                        bits = res(I.ty).bits
                        if v is UNDEF:
                            raise SafetyEvent('uninit', f'switch on an uninitialised value in {f.name}')
                        if isinstance(v, Term):
                            nxt = d
                            for cv, lbl in cases:
                                cvs = cv - (1 << bits) if cv >> (bits - 1) and cv > 0 else cv
                                if s.decide(mk_cmp('eq', v, cvs)):
                                    nxt = lbl
                                    break
                        else:
                            nxt = d
                            for cv, lbl in cases:
                                if (cv & ((1 << bits) - 1)) == v:
                                    nxt = lbl
                                    break
                        break
                    elif op == 'call' or op == 'invoke':
                        callee = I.args[0]
                        if callee[0] == 'global':
                            name = callee[1]
                        else:
                            fp = regs[callee[1]]
                            if not isinstance(fp, FnPtr):
                                if fp is UNDEF:
                                    raise SafetyEvent('uninit', 'indirect call through an uninitialised pointer')
                                raise SafetyEvent('badptr', f'indirect call through {fp}')
                            name = fp.name
                        a = [val(t, o) for t, o in I.args[1:]]
                        r = s.call(name, a, I)
                        if I.dst is not None:
                            regs[I.dst] = r
                        if op == 'invoke':
                            nxt = I.extra[0]
                            break
                    elif op == 'ret':
                        for p in allocas:
                            s.objs[p.obj].freed = True
                        return val(I.ty, I.args[0]) if I.args else None
                    elif op == 'alloca':
                        n = val(None, I.args[0])
                        p = s.alloc(sizeof(I.ty) * n, 'stack', f.name)
                        allocas.append(p)
                        regs[I.dst] = p
                    elif op == 'extractvalue':
                        a = val(I.ty, I.args[0])
                        for i in I.extra:
                            a = UNDEF if (a is UNDEF or a is None) else a[i]
                        regs[I.dst] = a
                    elif op == 'insertvalue':
                        a = val(I.ty, I.args[0])
                        b = val(I.extra[1], I.args[1])
                        a = s.agg_copy(I.ty, a)
                        tgt = a
                        tt = res(I.ty)
                        for i in I.extra[0][:-1]:
                            tt = res(tt.fields[i] if isinstance(tt, StructT) else tt.el)
                            tgt[i] = s.agg_copy(tt, tgt[i])
                            tgt = tgt[i]
                        tgt[I.extra[0][-1]] = b
                        regs[I.dst] = a
                    elif op == 'unreachable':
                        raise SafetyEvent('unreachable', f'reached "unreachable" in {f.name}')
                    elif op == 'freeze':
                        regs[I.dst] = val(I.ty, I.args[0])
                    else:
                        raise EngineError(f'unsupported instruction {I.line}')
                if s.steps > s.max_steps:
                    raise EngineError('step limit exceeded')
                prev = cur
                cur = nxt
        except SafetyEvent as e:
            if e.stack is None:
                e.stack = list(s.stack)
            raise
        finally:
            s.stack.pop()
            s.fn_steps[f.name] = s.fn_steps.get(f.name, 0) + (s.steps - steps0)

    def agg_copy(s, t, a):
        t = res(t)
        n = len(t.fields) if isinstance(t, StructT) else t.n
        if a is UNDEF or a is None:
            return [UNDEF] * n
        return list(a)

    def select(s, c, a, b, ty):
        if isinstance(c, Term):
            if a is b:
                return a
            if a is UNDEF or b is UNDEF:
                # either side may be chosen: keep the defined one only if the choice is decided
                return a if s.decide(c) else b
            t = res(ty)
            if isinstance(t, FloatT):
                return mk_ite(c, a, b, 'R')
            if isinstance(t, IntT) and s.fork_int_selects and t.bits > 1:
                return a if s.decide(c) else b
            if isinstance(t, IntT):
                if isinstance(a, (int, Term)) and isinstance(b, (int, Term)) and not isinstance(a, bool):
                    if t.bits == 1:
                        return mk_ite(c, bool(a) if isinstance(a, int) else a, bool(b) if isinstance(b, int) else b, 'B')
                    return mk_ite(c, a, b, 'I')
            if a == b:
                return a
            return a if s.decide(c) else b
        if c is UNDEF:
            raise SafetyEvent('uninit', 'select on an uninitialised condition')
        return a if c else b

    def load_typed(s, p, ty):
        t = res(ty)
        if isinstance(t, (StructT, ArrT)):
            return s.load_agg(p, t)
        v = s.load(p, sizeof(t), t)
        if isinstance(t, PtrT):
            if isinstance(v, int):
                v = int_to_ptr(v)
        elif isinstance(t, IntT):
            if isinstance(v, Ptr):
                v = ptr_to_int(v)
            elif s.mode == 'float' and isinstance(v, float):
                v = Bits(v)
            elif isinstance(v, Fraction) or (isinstance(v, Term) and v.sort == 'R'):
                v = Bits(v)
        elif isinstance(t, FloatT):
            if isinstance(v, Bits):
                v = v.v
            elif isinstance(v, int) and not isinstance(v, bool):
                if v == 0:
                    v = s.zero_of(t)
                else:
                    import struct as _st
                    d = _st.unpack('<d', _st.pack('<Q', v))[0]
                    v = d if s.mode == 'float' else Fraction(d)
        return v

    def load_agg(s, p, t):
        if isinstance(t, StructT):
            offs, _ = struct_layout(t)
            return [s.load_typed(Ptr(p.obj, p.off + o), f) for f, o in zip(t.fields, offs)]
        es = sizeof(t.el)
        return [s.load_typed(Ptr(p.obj, p.off + i * es), t.el) for i in range(t.n)]

    def store_typed(s, p, ty, v):
        t = res(ty)
        if isinstance(t, (StructT, ArrT)):
            if isinstance(t, StructT):
                offs, _ = struct_layout(t)
                for i, (f, o) in enumerate(zip(t.fields, offs)):
                    s.store_typed(Ptr(p.obj, p.off + o), f, UNDEF if (v is UNDEF or v is None) else v[i])
            else:
                es = sizeof(t.el)
                for i in range(t.n):
                    s.store_typed(Ptr(p.obj, p.off + i * es), t.el, UNDEF if (v is UNDEF or v is None) else v[i])
            return
        if isinstance(v, Bits):
            v = v.v
        s.store(p, v, sizeof(t))

    # ------------------------------------------------------------------ arithmetic
    def binop(s, op, ty, a, b, flags=()):
        t = res(ty)
        if isinstance(t, FloatT):
            if isinstance(a, Bits):
                a = a.v
            if isinstance(b, Bits):
                b = b.v
            if a is UNDEF or b is UNDEF:
                return UNDEF
            if s.mode == 'float':
                if op == 'fadd':
                    return a + b
                if op == 'fsub':
                    return a - b
                if op == 'fmul':
                    return a * b
                if op == 'fdiv':
                    if b == 0:
                        if a != a or a == 0:
                            return math.nan
                        return math.copysign(math.inf, a) * math.copysign(1.0, b)
                    return a / b
                if op == 'frem':
                    return math.fmod(a, b)
                raise EngineError(op)
            if op == 'fdiv':
                if isinstance(b, Term):
                    s.divisors.append(b)
                    if is_const(a) and a == 0:
                        return Fraction(0)
                elif b == 0:
                    raise SafetyEvent('div-by-zero', f'floating division by the constant zero in {s.stack[-1]}')
            if op == 'frem':
                raise EngineError('frem on symbolic reals')
            return mk(op[1:], a, b)
        if a is UNDEF or b is UNDEF:
            # x*0, x&0 on undef are still 0 in LLVM; keep it simple: propagate
            return UNDEF
        bits = t.bits
        M = (1 << bits) - 1
        if isinstance(a, Term) or isinstance(b, Term):
            return s.int_sym(op, bits, a, b, flags)
        if not (isinstance(a, int) and isinstance(b, int)):
            if isinstance(a, Ptr) or isinstance(b, Ptr):
                # pointer difference / alignment arithmetic through integers
                if isinstance(a, Ptr):
                    a = ptr_to_int(a)
                if isinstance(b, Ptr):
                    b = ptr_to_int(b)
            else:
                raise EngineError(f'integer op {op} on {a!r} {b!r}')

        def sg(x):
            return x - (1 << bits) if x >> (bits - 1) else x
        if op == 'add':
            return (a + b) & M
        if op == 'sub':
            return (a - b) & M
        if op == 'mul':
            return (a * b) & M
        if op == 'and':
            return a & b
        if op == 'or':
            return a | b
        if op == 'xor':
            return a ^ b
        if op == 'shl':
            return (a << b) & M if b < bits else UNDEF
        if op == 'lshr':
            return a >> b if b < bits else UNDEF
        if op == 'ashr':
            return (sg(a) >> b) & M if b < bits else UNDEF
        if op in ('udiv', 'urem', 'sdiv', 'srem') and b == 0:
            raise SafetyEvent('div-by-zero', f'integer division by zero in {s.stack[-1]}')
        if op == 'udiv':
            return a // b
        if op == 'urem':
            return a % b
        if op == 'sdiv':
            x, y = sg(a), sg(b)
            q = abs(x) // abs(y)
            q = -q if (x < 0) != (y < 0) else q
            return q & M
        if op == 'srem':
            x, y = sg(a), sg(b)
            r = abs(x) % abs(y)
            r = -r if x < 0 else r
            return r & M
        raise EngineError(op)

    def sint(s, v, bits):
        """signed mathematical reading of a concrete register value"""
        if isinstance(v, int):
            return v - (1 << bits) if v >> (bits - 1) else v
        return v

    def int_sym(s, op, bits, a, b, flags):
        if bits != 1 and isinstance(a, Term) and a.sort == 'B':
            a = mk_ite(a, 1, 0, 'I')
        if bits != 1 and isinstance(b, Term) and b.sort == 'B':
            b = mk_ite(b, 1, 0, 'I')
        if bits == 1:
            # i1 logic on Boolean terms
            A = a if isinstance(a, Term) else bool(a)
            B = b if isinstance(b, Term) else bool(b)
            if isinstance(A, Term) and A.sort == 'I':
                A = mk_cmp('ne', A, 0)
            if isinstance(B, Term) and B.sort == 'I':
                B = mk_cmp('ne', B, 0)
            if op == 'and':
                return mk_and(A, B)
            if op == 'or':
                return mk_or(A, B)
            if op == 'xor':
                return mk_or(mk_and(A, mk_not(B)), mk_and(mk_not(A), B))
            raise EngineError(f'i1 arithmetic {op} on Boolean terms')
        a = s.sint(a, bits)
        b = s.sint(b, bits)
        if op == 'sub' and bits == 64:
            ca, ra = split_const(a)
            cb, rb = split_const(b)
            if (ca >> PTRBITS) and (ca >> PTRBITS) == (cb >> PTRBITS):
                # difference of two addresses inside one object
                return int_sub_normalised(a, b)
        if op in ('and', 'or', 'xor') and (isinstance(a, int) or isinstance(b, int)):
            cst, x = (a, b) if isinstance(a, int) else (b, a)
            if cst >= 0 and not (op == 'and' and (cst & (cst + 1)) == 0):
                # bit operation with a non-negative constant: only the constant's one-bits matter; b_i = (x div 2^i) mod 2
                r = x if op != 'and' else 0
                i = 0
                while cst >> i:
                    if (cst >> i) & 1:
                        bi = i_emod(i_ediv(x, 1 << i), 2)
                        if op == 'xor':
                            r = imk('add', r, imk('mul', imk('sub', 1, imk('mul', 2, bi)), 1 << i))
                        elif op == 'or':
                            r = imk('add', r, imk('mul', imk('sub', 1, bi), 1 << i))
                        else:
                            r = imk('add', r, imk('mul', bi, 1 << i))
                    i += 1
                return r
        if op in ('add', 'sub', 'mul'):
            r = imk(op, a, b)
            s.int_ranges.append((r, bits, 'nsw' if 'nsw' in flags else ('nuw' if 'nuw' in flags else 'wrap'), s.stack[-1]))
            return r
        if op == 'sdiv':
            s.int_ranges.append((b, bits, 'nonzero', s.stack[-1]))
            return i_tdiv(a, b)
        if op == 'srem':
            s.int_ranges.append((b, bits, 'nonzero', s.stack[-1]))
            return i_trem(a, b)
        if op == 'udiv':
            s.int_ranges.append((b, bits, 'nonzero', s.stack[-1]))
            return i_ediv(i_unsigned(a, bits), i_unsigned(b, bits))
        if op == 'urem':
            s.int_ranges.append((b, bits, 'nonzero', s.stack[-1]))
            return i_emod(i_unsigned(a, bits), i_unsigned(b, bits))
        if op == 'and':
            if isinstance(b, int) and b >= 0 and (b & (b + 1)) == 0:
                return i_emod(a, b + 1)
            if isinstance(a, int) and a >= 0 and (a & (a + 1)) == 0:
                return i_emod(b, a + 1)
            if isinstance(b, int) and b < 0 and ((-b) & (-b - 1)) == 0:
                # clear low bits: a - a mod 2^k
                return imk('sub', a, i_emod(a, -b))
            raise EngineError(f'bitwise and on a symbolic integer with a non-mask operand ({a}, {b})')
        if op == 'shl':
            if isinstance(b, int):
                r = imk('mul', a, 1 << b)
                s.int_ranges.append((r, bits, 'nsw' if 'nsw' in flags else 'wrap', s.stack[-1]))
                return r
        if op == 'ashr':
            if isinstance(b, int):
                return i_ediv(a, 1 << b)
        if op == 'lshr':
            if isinstance(b, int):
                return i_ediv(i_unsigned(a, bits), 1 << b)
        def as_bool(v):
            if isinstance(v, int) and v in (0, 1):
                return bool(v)
            if isinstance(v, Term) and v.op == 'ite' and v.args[1] == 1 and v.args[2] == 0 and not isinstance(v.args[1], Term):
                return v.args[0]
            return None
        if op in ('or', 'and', 'xor'):
            if op == 'or' and isinstance(a, int) and a == 0:
                return b
            if op == 'or' and isinstance(b, int) and b == 0:
                return a
            A, B = as_bool(a), as_bool(b)
            if A is not None and B is not None:
                if op == 'or':
                    return mk_ite(mk_or(A, B), 1, 0, 'I')
                if op == 'and':
                    return mk_ite(mk_and(A, B), 1, 0, 'I')
                return mk_ite(mk_or(mk_and(A, mk_not(B)), mk_and(mk_not(A), B)), 1, 0, 'I')
        if op == 'or':
            # x | 1 with x known even (produced by shl) : clang uses this for 2*i+1
            if isinstance(b, int) and isinstance(a, Term) and a.op == 'imul' and isinstance(a.args[1], int) and b >= 0 and a.args[1] % (1 << b.bit_length()) == 0:
                return imk('add', a, b)
            if isinstance(b, int) and isinstance(a, Term) and a.op == 'imul' and isinstance(a.args[0], int) and b >= 0 and a.args[0] % (1 << b.bit_length()) == 0:
                return imk('add', a, b)
        if op == 'xor':
            if isinstance(b, int) and b == -1:
                return imk('sub', -1, a)
        raise EngineError(f'bit operation {op} on a symbolic integer ({show(a,3)}, {show(b,3)})')

    def icmp(s, pred, ty, a, b):
        t = res(ty)
        if a is UNDEF or b is UNDEF:
            return UNDEF
        if isinstance(a, Bits) or isinstance(b, Bits):
            raise EngineError('integer comparison of a floating bit pattern')
        if isinstance(t, PtrT) or isinstance(a, (Ptr, FnPtr)) or isinstance(b, (Ptr, FnPtr)):
            if isinstance(a, int) and a == 0:
                a = NULL
            if isinstance(b, int) and b == 0:
                b = NULL
            if isinstance(a, Ptr) and isinstance(b, Ptr) and (isinstance(a.off, Term) or isinstance(b.off, Term)):
                if a.obj != b.obj:
                    if pred == 'eq':
                        return 0
                    if pred == 'ne':
                        return 1
                    return int({'ult': a.obj < b.obj, 'ule': a.obj < b.obj, 'ugt': a.obj > b.obj, 'uge': a.obj > b.obj}[pred])
                return s.icmp(pred if pred in ('eq', 'ne') else 's' + pred[1:], IntT(64), a.off, b.off)
            if pred == 'eq':
                return int(a == b)
            if pred == 'ne':
                return int(a != b)
            if isinstance(a, Ptr) and isinstance(b, Ptr):
                a, b, bits = ptr_to_int(a), ptr_to_int(b), 64
            else:
                raise EngineError(f'pointer comparison {pred} {a} {b}')
        else:
            bits = t.bits
        if isinstance(a, Term) or isinstance(b, Term):
            if bits == 1 or (isinstance(a, Term) and a.sort == 'B') or (isinstance(b, Term) and b.sort == 'B'):
                A = a if isinstance(a, Term) else bool(a)
                B = b if isinstance(b, Term) else bool(b)
                if pred == 'eq':
                    return mk_or(mk_and(A, B), mk_and(mk_not(A), mk_not(B)))
                if pred == 'ne':
                    return mk_or(mk_and(A, mk_not(B)), mk_and(mk_not(A), B))
                raise EngineError('ordered comparison of i1 terms')
            a = s.sint(a, bits)
            b = s.sint(b, bits)
            if pred in ('eq', 'ne'):
                return mk_cmp(pred, a, b)
            if pred[0] == 'u':
                a = i_unsigned(a, bits)
                b = i_unsigned(b, bits)
            return mk_cmp(pred[1:], a, b)
        if not (isinstance(a, int) and isinstance(b, int)):
            raise EngineError(f'icmp on {a!r} {b!r}')
        if pred == 'eq':
            return int(a == b)
        if pred == 'ne':
            return int(a != b)
        if pred[0] == 's':
            a = a - (1 << bits) if a >> (bits - 1) else a
            b = b - (1 << bits) if b >> (bits - 1) else b
        p = pred[1:]
        return int({'lt': a < b, 'le': a <= b, 'gt': a > b, 'ge': a >= b}[p])

    def fcmp(s, pred, a, b):
        if a is UNDEF or b is UNDEF:
            return UNDEF
        if isinstance(a, Bits):
            a = a.v
        if isinstance(b, Bits):
            b = b.v
        if pred == 'ord':
            if s.mode == 'float':
                return int(not (a != a or b != b))
            return 1
        if pred == 'uno':
            if s.mode == 'float':
                return int(a != a or b != b)
            return 0
        if pred == 'true':
            return 1
        if pred == 'false':
            return 0
        p = pred[1:]
        if s.mode == 'float':
            nan = (a != a) or (b != b)
            if nan:
                return int(pred[0] == 'u')
            return int({'lt': a < b, 'le': a <= b, 'gt': a > b, 'ge': a >= b, 'eq': a == b, 'ne': a != b}[p])
        r = mk_cmp(p, a, b)
        if isinstance(r, bool):
            return int(r)
        return r

    def cast(s, op, ft, tt, a):
        ft = res(ft)
        tt = res(tt)
        if a is UNDEF:
            return UNDEF
        if op == 'bitcast':
            if isinstance(ft, FloatT) and isinstance(tt, IntT):
                return Bits(a)
            if isinstance(ft, IntT) and isinstance(tt, FloatT):
                if isinstance(a, Bits):
                    return a.v
                if isinstance(a, int):
                    import struct as _st
                    d = _st.unpack('<d', _st.pack('<Q', a))[0]
                    return d if s.mode == 'float' else Fraction(d)
                raise EngineError('int->double bitcast of a symbolic integer')
            return a
        if op == 'zext':
            if isinstance(a, Term):
                if a.sort == 'B':
                    return a if tt.bits == 1 else mk_ite(a, 1, 0, 'I')
                return i_unsigned(a, ft.bits)
            if isinstance(a, Bits):
                return a
            return a
        if op == 'sext':
            if isinstance(a, Term):
                if a.sort == 'B':
                    return mk_ite(a, -1, 0, 'I')
                return a
            fb = ft.bits
            x = a - (1 << fb) if a >> (fb - 1) else a
            return x & ((1 << tt.bits) - 1)
        if op == 'trunc':
            if isinstance(a, Bits):
                return a
            if isinstance(a, Term):
                if tt.bits == 1:
                    return mk_cmp('eq', i_emod(a, 2), 1)
                r = a
                s.int_ranges.append((r, tt.bits, 'trunc', s.stack[-1]))
                return r
            if isinstance(a, Ptr):
                a = ptr_to_int(a)
            return a & ((1 << tt.bits) - 1)
        if op in ('sitofp', 'uitofp'):
            if isinstance(a, Term):
                if a.sort == 'B':
                    return mk_ite(a, Fraction(1), Fraction(0), 'R')
                if op == 'uitofp':
                    a = i_unsigned(a, ft.bits)
                return Term('to_real', (a,), 'R')
            if op == 'sitofp':
                fb = ft.bits
                a = a - (1 << fb) if a >> (fb - 1) else a
            return float(a) if s.mode == 'float' else Fraction(a)
        if op in ('fptosi', 'fptoui'):
            if isinstance(a, Term):
                # truncation toward zero
                fl = Term('to_int', (a,), 'I')
                ng = imk('sub', 0, Term('to_int', (mk('neg', a),), 'I'))
                r = mk_ite(mk_cmp('ge', a, Fraction(0)), fl, ng, 'I')
                s.int_ranges.append((r, tt.bits, 'fptosi', s.stack[-1]))
                if s.concretize:
                    return s.concretize_int(r) & ((1 << tt.bits) - 1)
                return r
            if s.mode == 'float' and (a != a or abs(a) >= 2.0 ** (tt.bits - (1 if op == 'fptosi' else 0))):
                return UNDEF
            return int(a) & ((1 << tt.bits) - 1)
        if op == 'ptrtoint':
            if isinstance(a, Ptr):
                return ptr_to_int(a)
            if isinstance(a, int):
                return a
            raise EngineError('ptrtoint of a function pointer')
        if op == 'inttoptr':
            if isinstance(a, Ptr):
                return a
            return int_to_ptr(a)
        if op in ('fpext', 'fptrunc'):
            if op == 'fptrunc' and s.mode == 'float':
                import struct as _st
                return _st.unpack('<f', _st.pack('<f', a))[0]
            return a
        raise EngineError(op)

    # ------------------------------------------------------------------ harness-visible helpers
    def cstr(s, p):
        out = []
        while True:
            b = s.load(p, 1, IntT(8))
            if b == 0 or b is UNDEF:
                break
            out.append(chr(b))
            p = Ptr(p.obj, p.off + 1)
        return ''.join(out)
