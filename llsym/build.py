# Compile pipeline: /repo working tree -> LLVM IR (clang 14) and -> native objects (g++), content-addressed cache.
# Nothing is reused unless the bytes of the source, of every header in the tree and the flags are identical,
# so every run rebuilds what changed in /repo's current working tree.
import glob, hashlib, os, subprocess, sys, time
from concurrent.futures import ThreadPoolExecutor

REPO = os.environ.get('VERIF_REPO', '/repo')
VERIF = os.path.dirname(os.path.dirname(os.path.abspath(__file__)))
WORK = os.path.join(VERIF, '.work')
CACHE = os.path.join(WORK, 'cache')
GUARD = 'SCICOMPMOD_GMGPOLAR_VERIF'

IRFLAGS = ['-std=c++20', '-O1', '-fno-vectorize', '-fno-slp-vectorize', '-fno-unroll-loops', '-ffp-contract=off',
           '-fno-access-control', f'-I{REPO}/include', f'-I{VERIF}/harness', f'-D{GUARD}',
           '-Wno-everything', '-S', '-emit-llvm']
NATFLAGS = ['-std=c++20', '-O2', '-mtune=generic', '-ffp-contract=off', '-fno-access-control', f'-I{REPO}/include',
            f'-I{VERIF}/harness', f'-D{GUARD}', '-w', '-c']

_tree_hash = None


def tree_hash():
    """hash of every header-like file of the repository and of the harness directory"""
    global _tree_hash
    if _tree_hash is None:
        h = hashlib.sha256()
        files = []
        for root in (os.path.join(REPO, 'include'), os.path.join(REPO, 'src'), os.path.join(VERIF, 'harness')):
            for dp, dn, fn in os.walk(root):
                for f in fn:
                    if f.endswith(('.h', '.inl', '.hpp')):
                        files.append(os.path.join(dp, f))
        for f in sorted(files):
            h.update(f.encode())
            with open(f, 'rb') as fh:
                h.update(fh.read())
        _tree_hash = h.hexdigest()
    return _tree_hash


def _key(src, flags):
    h = hashlib.sha256()
    h.update(tree_hash().encode())
    with open(src, 'rb') as fh:
        h.update(fh.read())
    h.update(src.encode())
    h.update(' '.join(flags).encode())
    return h.hexdigest()[:24]


def _run(cmd):
    r = subprocess.run(cmd, capture_output=True, text=True)
    if r.returncode != 0:
        raise RuntimeError('BUILD FAILED: ' + ' '.join(cmd) + '\n' + r.stderr[-4000:])


def compile_ll(src, extra=()):
    os.makedirs(CACHE, exist_ok=True)
    flags = IRFLAGS + list(extra)
    out = os.path.join(CACHE, _key(src, flags) + '.ll')
    if not os.path.exists(out):
        tmp = out + f'.{os.getpid()}.tmp'
        _run(['clang++-14'] + flags + [src, '-o', tmp])
        os.replace(tmp, out)
    return out


def compile_obj(src, extra=()):
    os.makedirs(CACHE, exist_ok=True)
    flags = NATFLAGS + list(extra)
    out = os.path.join(CACHE, _key(src, flags) + '.o')
    if not os.path.exists(out):
        tmp = out + f'.{os.getpid()}.tmp.o'
        _run(['g++'] + flags + [src, '-o', tmp])
        os.replace(tmp, out)
    return out


def expand(patterns):
    """-> list of (file, extra IR flags, extra native flags); a pattern may be a tuple (pattern, ir_flags, native_flags)"""
    out = []
    for p in patterns:
        irf, natf = (), ()
        if isinstance(p, tuple):
            p, irf, natf = p[0], tuple(p[1]), tuple(p[2]) if len(p) > 2 else ()
        got = _expand1(p)
        out += [(f, irf, natf) for f in got]
    seen = set()
    res = []
    for f in out:
        if f[0] not in seen:
            seen.add(f[0])
            res.append(f)
    return res


def _expand1(p):
    out = []
    if True:
        if p.startswith('repo:'):
            g = sorted(glob.glob(os.path.join(REPO, p[5:]), recursive=True))
            if not g:
                raise RuntimeError(f'no source matches {p}')
            out += g
        else:
            out.append(os.path.join(VERIF, p))
    return out


CORE = ['repo:src/PolarGrid/*.cpp', 'repo:src/Level/*.cpp', 'repo:src/Stencil/*.cpp', 'repo:src/Interpolation/*.cpp',
        'repo:src/Residual/**/*.cpp', 'repo:src/Smoother/**/*.cpp', 'repo:src/ExtrapolatedSmoother/**/*.cpp',
        'repo:src/DirectSolver/**/*.cpp']
GMG = ['repo:src/GMGPolar/MultigridMethods/*.cpp', 'repo:src/GMGPolar/solver.cpp', 'repo:src/GMGPolar/setup.cpp',
       'repo:src/GMGPolar/build_rhs_f.cpp', 'repo:src/GMGPolar/level_interpolation.cpp', 'repo:src/GMGPolar/writeToVTK.cpp']
GEOM = ['repo:src/InputFunctions/DomainGeometry/*.cpp', 'repo:src/InputFunctions/DensityProfileCoefficients/*.cpp']


def build_ir(sources, extra=(), jobs=16):
    """returns path of the linked module"""
    files3 = expand(sources)
    files = [f for f, a, b in files3]
    with ThreadPoolExecutor(jobs) as ex:
        lls = list(ex.map(lambda fab: compile_ll(fab[0], list(extra) + list(fab[1])), files3))
    h = hashlib.sha256(' '.join(lls).encode()).hexdigest()[:24]
    out = os.path.join(CACHE, 'link_' + h + '.ll')
    if not os.path.exists(out):
        tmp = out + f'.{os.getpid()}.tmp'
        _run(['llvm-link-14', '-S'] + lls + ['-o', tmp])
        os.replace(tmp, out)
    return out, files


def build_native(sources, extra=(), jobs=16, openmp=False, sanitize=None, runtime_flags=(), link_flags=()):
    files3 = expand(sources) + [(os.path.join(VERIF, 'runtime', 'vrt.cpp'), (), tuple(runtime_flags))]
    ex_flags = list(extra)
    if openmp:
        ex_flags.append('-fopenmp')
    if sanitize:
        ex_flags += [f'-fsanitize={sanitize}', '-g']
    with ThreadPoolExecutor(jobs) as ex:
        objs = list(ex.map(lambda fab: compile_obj(fab[0], ex_flags + list(fab[2])), files3))
    h = hashlib.sha256((' '.join(objs) + ' '.join(link_flags)).encode()).hexdigest()[:24]
    out = os.path.join(CACHE, 'exe_' + h)
    if not os.path.exists(out):
        tmp = out + f'.{os.getpid()}.tmp'
        link = ['g++', '-rdynamic'] + objs + ['-o', tmp, '-ldl'] + list(link_flags)
        if openmp:
            link.append('-fopenmp')
        if sanitize:
            link.append(f'-fsanitize={sanitize}')
        _run(link)
        os.replace(tmp, out)
    return out


def cache_gc(max_gb=12):
    """keep the cache bounded: drop oldest files first"""
    try:
        ents = [(os.path.getmtime(os.path.join(CACHE, f)), os.path.getsize(os.path.join(CACHE, f)), os.path.join(CACHE, f))
                for f in os.listdir(CACHE)]
    except FileNotFoundError:
        return
    tot = sum(e[1] for e in ents)
    for mt, sz, p in sorted(ents):
        if tot <= max_gb * (1 << 30):
            break
        try:
            os.unlink(p)
            tot -= sz
        except OSError:
            pass
