# ./check <id> [--tier quick|thorough] [--replay file] : decide one property on /repo's current working tree.
import re
import argparse, fnmatch, importlib, json, multiprocessing, os, shutil, sys, time, traceback
from concurrent.futures import ThreadPoolExecutor
from fractions import Fraction

from . import build, driver, smt
from .ir import parse_module
from . import coverage

VERIF = build.VERIF
MAX_REPLAYS_PER_KEY = 2


def load_known(pid):
    p = os.path.join(VERIF, 'known_findings.json')
    if not os.path.exists(p):
        return []
    return [e for e in json.load(open(p)) if e.get('property') == pid]


def main():
    ap = argparse.ArgumentParser()
    ap.add_argument('prop')
    ap.add_argument('--tier', default=os.environ.get('VERIF_TIER', 'quick'))
    ap.add_argument('--replay', default=None)
    ap.add_argument('--only', default=None, help='substring filter on job labels (debugging)')
    ap.add_argument('--keep', action='store_true')
    ap.add_argument('--jobs', type=int, default=int(os.environ.get('VERIF_JOBS', '16')))
    ap.add_argument('--no-diff', action='store_true')
    ap.add_argument('--no-evidence', action='store_true')
    a = ap.parse_args()
    tier = a.tier if a.tier in ('quick', 'thorough') else 'quick'
    seed = int(os.environ.get('VERIF_SEED', '1'))
    sys.path.insert(0, VERIF)
    P = importlib.import_module(f'props.{a.prop}')
    if a.replay:
        return replay_cmd(P, a.replay)
    t0 = time.time()
    rc = 2
    try:
        rc = run_check(P, tier, seed, a)
    except Exception:
        print('CHECK BROKEN (engine failure, no verdict):')
        traceback.print_exc()
        rc = 2
    sys.stdout.flush()
    return rc


def replay_cmd(P, path):
    hdr = {}
    for ln in open(path):
        if ln.startswith('# ') and ':' in ln:
            k, v = ln[2:].split(':', 1)
            hdr[k.strip()] = v.strip()
    entry = hdr.get('entry')
    args = json.loads(hdr.get('args', '[]'))
    exe = build.build_native(P.SOURCES, extra=getattr(P, 'FLAGS', []) + getattr(P, 'NATIVE_FLAGS', []), runtime_flags=list(getattr(P, 'RUNTIME_FLAGS', [])), link_flags=list(getattr(P, 'NATIVE_LINK_FLAGS', [])))
    rc, chks, out = driver.native_replay(exe, dict(entry=entry, args=args), path, rand_seed=(int(hdr['rand_seed']) if 'rand_seed' in hdr else None))
    print(out)
    bad = [k for k, v in chks.items() if not v[0]]
    print(f'replay: {len(bad)} failing checks: {bad[:10]}')
    return 1 if bad else 0


def run_check(P, tier, seed, a):
    t0 = time.time()
    pid = P.ID
    quick = tier == 'quick'
    workroot = os.path.join(build.WORK, f'{pid}_{tier}_{os.getpid()}')
    shutil.rmtree(workroot, ignore_errors=True)
    os.makedirs(workroot)
    known = load_known(pid)
    jobs = P.jobs(tier, seed)
    if a.only:
        jobs = [j for j in jobs if a.only in j.get('label', j['entry'])]
    flags = list(getattr(P, 'FLAGS', []))
    t_b0 = time.time()
    with ThreadPoolExecutor(2) as ex:
        f_ir = ex.submit(build.build_ir, P.SOURCES, flags + list(getattr(P, 'IR_FLAGS', [])))
        f_nat = ex.submit(build.build_native, P.SOURCES, flags + list(getattr(P, 'NATIVE_FLAGS', [])), 16, False, None, list(getattr(P, 'RUNTIME_FLAGS', [])), list(getattr(P, 'NATIVE_LINK_FLAGS', [])))
        ll, files = f_ir.result()
        exe = f_nat.result()
    t_build = time.time() - t_b0
    t_p0 = time.time()
    mod = parse_module(open(ll).read())
    t_parse = time.time() - t_p0
    prop = dict(jobs=jobs, hooks=getattr(P, 'HOOKS', {}))
    driver._MOD = mod
    driver._PROP = prop
    driver._OUTDIR = workroot
    print(f'[{pid}] tier={tier} jobs={len(jobs)} build {t_build:.1f}s parse {t_parse:.1f}s module={os.path.basename(ll)} ({len(mod.funcs)} functions)')
    sys.stdout.flush()
    ctx = multiprocessing.get_context('fork')
    nproc = min(a.jobs, max(1, len(jobs)))
    diff_jobs = [] if a.no_diff else [i for i, j in enumerate(jobs) if j.get('diff', False)]
    with ctx.Pool(nproc) as pool:
        res_async = pool.map_async(driver.job_worker, range(len(jobs)), chunksize=1)
        diff_async = pool.map_async(driver.diff_worker, [(i, seed, exe) for i in diff_jobs], chunksize=1)
        summaries = res_async.get()
        diffs = diff_async.get()
    t_exec = time.time() - t0
    broken = []
    for s in summaries:
        if 'fatal' in s:
            broken.append(f'job {s["idx"]}: {s["fatal"][-1200:]}')
    if broken:
        for b in broken:
            print('ENGINE FAILURE', b)
        return finish(P, tier, seed, t0, None, broken=broken, a=a, workroot=workroot)
    # ---------------------------------------------------------------- solve
    all_batches = []
    for s in summaries:
        if s.get('omp_paths'):
            from . import omp as _omp
            s['batches'] = s['batches'] + _omp.race_queries(s, jobs[s['idx']], os.path.join(workroot, f'job{s["idx"]}'))
            s['obligations'] += sum(1 for b in s['batches'] if b.get('kind') == 'race')
        for b in s['batches']:
            b['job'] = s['idx']
            cap = jobs[s['idx']].get('cap_quick' if quick else 'cap_thorough')
            if cap and not b.get('cap'):
                b['cap'] = cap
            all_batches.append(b)
    t_s0 = time.time()
    # obligations that already fail at a known point first; then the rest under a per-job solver budget, so that a badly
    # broken tree (hundreds of hard sat-direction queries) ends in a bounded time with the violations found so far
    all_batches.sort(key=lambda b: 0 if b.get('hinted') else 1)
    spent = {}
    budget = {i: (j.get('solver_budget_quick', 600) if quick else j.get('solver_budget_thorough', 7200)) for i, j in enumerate(jobs)}

    def solve_one(b):
        if not b.get('hinted') and spent.get(b['job'], 0.0) > budget[b['job']]:
            return dict(answers=['skipped-budget'] * len(b['goals']), wall=0.0, solver='none')
        r = driver.solve_batch(b, quick)
        if any(x not in ('sat', 'unsat', 'structural') for x in r['answers']):
            spent[b['job']] = spent.get(b['job'], 0.0) + r['wall']
        return r
    with ThreadPoolExecutor(a.jobs) as ex:
        results = list(ex.map(solve_one, all_batches))
    t_solve = time.time() - t_s0
    stats = dict(obligations=0, discharged=0, trivial=0, undecided=[], sat=[], solver_time=0.0, queries=0, by_solver={},
                 witness_ok=0, witness_bad=[], bits_structural=[])
    for s in summaries:
        stats['obligations'] += s['obligations']
        stats['trivial'] += s['trivial']
    samples = []
    for b, r in zip(all_batches, results):
        stats['solver_time'] += r['wall']
        stats['by_solver'][r['solver']] = stats['by_solver'].get(r['solver'], 0) + len(b['goals'])
        for gi, (g, ans) in enumerate(zip(b['goals'], r['answers'])):
            stats['queries'] += 1 if ans != 'structural' else 0
            if r.get('pin_rejected'):
                # the explicit point stays a candidate for native replay unless the unpinned query produced its own model
                b = dict(b, hint_env=(None if ans == 'sat' else b.get('hint_env')), hinted=False, file=b.get('file_free') or b['file'])
            rec = dict(job=b['job'], path=b['path'], tag=g['tag'], k=g['k'], kind=g['kind'], answer=ans, batch=b, gi=gi, raw_model=r.get('raw_model'))
            if g['kind'] == 'witness':
                if ans == 'sat':
                    stats['witness_ok'] += 1
                    stats['discharged'] += 1
                elif ans == 'unsat':
                    stats['witness_bad'].append(rec)
                else:
                    stats.setdefault('witness_undecided', []).append(rec)
                continue
            if ans == 'unsat':
                stats['discharged'] += 1
            elif ans == 'sat':
                stats['sat'].append(rec)
            elif ans == 'structural':
                stats['bits_structural'].append(rec)
            else:
                stats['undecided'].append(rec)
            if len(samples) < 6 and ans in ('sat', 'unsat') and b.get('file'):
                samples.append(dict(job=jobs[b['job']].get('label'), obligation=f'{g["tag"]}[{g["k"]}]', kind=g['kind'], logic=b.get('logic'),
                                    verdict=ans, smt_bytes=os.path.getsize(b['file']), solver=r['solver'], batch_wall_s=round(r['wall'], 3)))
    stats['discharged'] += stats['trivial']
    slow = sorted(zip(all_batches, results), key=lambda br: -br[1]['wall'])[:5]
    slowest = [dict(job=jobs[b['job']].get('label'), goals=[f'{g["tag"]}[{g["k"]}]' for g in b['goals']][:3], wall_s=round(r['wall'], 2), answers=r['answers'][:3]) for b, r in slow]
    # ---------------------------------------------------------------- violations
    violations = []   # dict(key, what, replay, confirmed)
    inconclusive = []
    soft_inconclusive = []     # refutation-only jobs: a model that does not reproduce natively is 'not decided', not a problem
    replay_dir = os.path.join(VERIF, 'replay', pid)
    per_key = {}
    attempts = {}
    # obligations the solver could not decide but that fail at an explicit point (found by evaluating the terms at the
    # path's witness point): the point is replayed natively; the solver verdict stays 'undecided' in the evidence
    point_refuted = [r for r in stats['undecided'] if r['batch'].get('hint_env')]
    cand = stats['sat'] + stats['bits_structural'] + point_refuted
    cand.sort(key=lambda r: 0 if r['batch'].get('hint_env') else 1)   # obligations that fail at a known point first
    for rec in cand:
        job = jobs[rec['job']]
        key = f'{job.get("cls", job["entry"])}|{rec["tag"]}'
        b = rec['batch']
        per_key[key] = per_key.get(key, 0) + 1
        if per_key[key] > MAX_REPLAYS_PER_KEY:
            # same obligation family already confirmed/refuted by replay: counted, not replayed again
            prev = [v for v in violations if v['key'] == key]
            if prev:
                prev[0]['more'] = prev[0].get('more', 0) + 1
                continue
        if rec['kind'] == 'race':
            env = smt.parse_values(rec.get('raw_model') or '') or {}
            os.makedirs(replay_dir, exist_ok=True)
            fn = os.path.join(replay_dir, f'{job["entry"]}_{"_".join(str(x) for x in job.get("args", []))}_race{rec["k"]}.vals')
            driver.write_vals(fn, env, f'property: {pid}\nentry: {job["entry"]}\nargs: {json.dumps(job.get("args", []))}\nrace: {rec["tag"]}\nquery: conflicting iterations (it_r<region>_l<loop> and the __b copy) below')
            violations.append(dict(key=f'{job.get("cls", job["entry"])}|{rec["tag"].split(":phase")[0]}', what=f'{rec["tag"]}: two unordered accesses (at least one write) to the same element; iterations {env}', job=job,
                                   replay=fn, confirmed='happens-before relation read off the OpenMP runtime calls in the IR (no barrier / program order between the two accesses)', rec=rec))
            continue
        if rec['answer'] == 'structural':
            # the two operation trees differ and are beyond a QF_FP query: look for doubles that exhibit a difference in the native
            # build (pseudo-random inputs); without one the obligation is reported as not decided, not as a violation
            attempts[key] = attempts.get(key, 0) + 1
            if attempts[key] > MAX_REPLAYS_PER_KEY + 3:
                continue
            found = None
            for sd in range(1, 41):
                try:
                    rc_, chks_, out_ = driver.native_replay(exe, job, None, timeout=120, rand_seed=sd)
                except Exception:
                    break
                kk = (rec['tag'], rec['k'], 'bits')
                if kk in chks_ and not chks_[kk][0]:
                    found = (sd, chks_[kk][3])
                    break
            if found is None:
                (soft_inconclusive if job.get('undecided_ok') else inconclusive).append(f'{key}[{rec["k"]}]: operation trees differ ({b.get("reason")}) but 40 native runs on pseudo-random inputs agree bit for bit')
                continue
            os.makedirs(replay_dir, exist_ok=True)
            fn = os.path.join(replay_dir, f'{job["entry"]}_{"_".join(str(x) for x in job.get("args", []))}_{rec["tag"]}_{rec["k"]}.vals'.replace('/', '_').replace(' ', '_'))
            open(fn, 'w').write(f'# property: {pid}\n# entry: {job["entry"]}\n# args: {json.dumps(job.get("args", []))}\n# obligation: {rec["tag"]}[{rec["k"]}] kind=bits\n# rand_seed: {found[0]}\n')
            violations.append(dict(key=key, what=f'{rec["tag"]}[{rec["k"]}] is not bit-exact ({job.get("label")}): {b.get("reason")}', job=job,
                                   replay=fn, confirmed=f'native run with pseudo-random inputs (seed {found[0]}): {found[1]}', rec=rec))
            continue
        attempts[key] = attempts.get(key, 0) + 1
        if attempts[key] > MAX_REPLAYS_PER_KEY + 3:
            if rec['answer'] == 'sat':
                (soft_inconclusive if job.get('undecided_ok') else inconclusive).append(f'{key}[{rec["k"]}]: sat, not replayed (replay budget for this family used up)')
            continue
        if b.get('hint_env'):
            env, raw = {k: Fraction(v) for k, v in b['hint_env'].items()}, ''
        elif rec.get('raw_model') and smt.parse_values(rec['raw_model']):
            env, raw = smt.parse_values(rec['raw_model']), rec['raw_model']
        else:
            env, raw = driver.get_model(b, rec['gi'], cap=(b.get('cap') or (60 if quick else 300)))
        if env is None and b.get('file') and not driver.declared_syms(open(b['file']).read()):
            env = {}     # the obligation has no free symbol (a concrete fact about this configuration): replayed as is
        if env is None:
            (soft_inconclusive if job.get('undecided_ok') else inconclusive).append(f'{key}: solver said sat but produced no model')
            continue
        if rec['kind'] == 'bits' and b.get('file_path'):
            # complete the floating-point model over the path's real assumptions (the doubles of the model pinned)
            tp = open(b['file_path']).read()
            pins = ''.join(f'(assert (= {k} {smt.num(Fraction(v), "R")}))\n' for k, v in env.items() if isinstance(v, float) and re.search(rf'\(declare-fun {re.escape(k)} \(\)', tp))
            tp = tp.replace('(check-sat)', pins + '(check-sat)', 1)
            ansp, wp, rawp = smt.run(tp, 'z3', 60, os.path.dirname(b['file_path']), tag='pc', decimal=True)
            if ansp and ansp[0] == 'sat':
                for k, v in (smt.parse_values(rawp) or {}).items():
                    env.setdefault(k, v)
        env.update(summaries[rec['job']]['paths'][rec['path']].get('choices', {}))
        os.makedirs(replay_dir, exist_ok=True)
        fn = os.path.join(replay_dir, f'{job["entry"]}_{"_".join(str(x) for x in job.get("args", []))}_{rec["tag"]}_{rec["k"]}.vals'.replace('/', '_').replace(' ', '_'))
        fn = os.path.join(replay_dir, os.path.basename(fn))
        hdr = f'property: {pid}\nentry: {job["entry"]}\nargs: {json.dumps(job.get("args", []))}\nobligation: {rec["tag"]}[{rec["k"]}] kind={rec["kind"]}\nlabel: {job.get("label")}'
        driver.write_vals(fn, env, hdr)
        confirmed = confirm(exe, job, rec, env, fn)
        if confirmed is None and rec['answer'] == 'sat' and not b.get('hint_env') and (b['goals'][rec['gi']].get('sides')):
            # the model violates the obligation in exact arithmetic by less than a floating-point run can show: ask for a
            # model that violates it by a margin above the replay tolerance and replay that one
            mg = driver.margin_assert(rec['kind'], b['goals'][rec['gi']]['sides'], open(b['file']).read(), rel=job.get('margin_rel', '0.000001'))
            if mg:
                env2, raw2 = driver.get_model(b, rec['gi'], extra_asserts=[mg], cap=(b.get('cap') or (60 if quick else 300)))
                if env2:
                    env2.update(summaries[rec['job']]['paths'][rec['path']].get('choices', {}))
                    driver.write_vals(fn, env2, hdr + '\nmodel: violation by a margin above the replay tolerance')
                    confirmed = confirm(exe, job, rec, env2, fn)
        if confirmed is None:
            if rec['answer'] == 'sat':
                (soft_inconclusive if job.get('undecided_ok') else inconclusive).append(f'{key}[{rec["k"]}]: model does not reproduce natively (replay {fn})')
            continue
        if rec['answer'] != 'sat':
            confirmed += ' (point found by exact/numeric evaluation of the obligation; solver verdict on it: ' + rec['answer'] + ')'
            stats['undecided'].remove(rec)
        violations.append(dict(key=key, what=f'{rec["tag"]}[{rec["k"]}] fails ({job.get("label")})', job=job, replay=fn, confirmed=confirmed, rec=rec))
    # safety events and unexpected outcomes
    for s in summaries:
        job = jobs[s['idx']]
        for ev in s['events']:
            top = (ev.get('stack') or ['?'])[-1]
            key = f'{job.get("cls", job["entry"])}|safety:{ev["kind"]}|{demangle_short(top)}'
            fn = None
            if ev.get('query'):
                text = open(ev['query']).read()
                ans, wall, raw = smt.run(text, 'z3', 120, os.path.dirname(ev['query']), tag='ev', decimal=True)
                if ans and ans[0] == 'unsat':
                    continue   # infeasible path: not an event
                env = smt.parse_values(raw) if ans and ans[0] == 'sat' else {}
                if not (ans and ans[0] == 'sat') and 'declare-fun' in text:
                    inconclusive.append(f'{key}: feasibility of the path to the event is undecided ({ans})')
                    continue
                os.makedirs(replay_dir, exist_ok=True)
                fn = os.path.join(replay_dir, f'{job["entry"]}_{"_".join(str(x) for x in job.get("args", []))}_event{ev["path"]}.vals')
                hdr = f'property: {pid}\nentry: {job["entry"]}\nargs: {json.dumps(job.get("args", []))}\nevent: {ev["kind"]}: {ev["msg"]}\nstack: {" <- ".join(reversed(ev.get("stack") or []))}'
                driver.write_vals(fn, env or {}, hdr)
            violations.append(dict(key=key, what=f'{ev["kind"]}: {ev["msg"]} ({job.get("label")})', job=job, replay=fn,
                                   confirmed='engine memory/initialisation model on a feasible path', rec=None))
    # ---------------------------------------------------------------- classify against known findings
    new_viol = []
    known_hits = {}
    for v in violations:
        hit = None
        for e in known:
            if e.get('status') == 'known' and fnmatch.fnmatch(v['key'], e['match']):
                hit = e
                break
        if hit is not None:
            known_hits.setdefault(hit['match'], (hit, []))[1].append(v)
        else:
            new_viol.append(v)
    # ---------------------------------------------------------------- vacuity, reachability, differential
    problems = list(inconclusive)
    for s in summaries:
        job = jobs[s['idx']]
        for e in s['errors']:
            problems.append(f'job {job.get("label")}: engine error: {e["error"]}')
        need = set(job.get('reach', []))
        missing = need - set(s['reached'])
        if missing:
            problems.append(f'job {job.get("label")}: reachability witness not hit: {sorted(missing)}')
        if s['obligations'] == 0 and job.get('expect', 'return') == 'return' and not job.get('no_obligations_ok'):
            problems.append(f'job {job.get("label")}: produced no obligation')
    for rec in stats['witness_bad']:
        pinfo = summaries[rec['job']]['paths'][rec['path']]
        if pinfo['decisions']:
            # a forked path whose condition turned out unsatisfiable: infeasible, its obligations hold vacuously by construction
            pruned_late = locals().get('pruned_late', 0) + 1
            continue
        problems.append(f'job {jobs[rec["job"]].get("label")}: assumptions/premises of path {rec["path"]} are unsatisfiable (vacuous)')
    # vacuity: a path whose satisfiability the solver could not settle is tolerated only if the same job has at least one
    # path with an explicit witness (its obligations are then not all vacuous)
    wu = stats.get('witness_undecided', [])
    for ji in sorted(set(r['job'] for r in wu)):
        s_ = summaries[ji]
        have = s_.get('concrete_witnesses', 0) + s_.get('numeric_witnesses', 0) + sum(1 for b, r in zip(all_batches, results) if b['job'] == ji and b['kind'] == 'witness' and 'sat' in r['answers'])
        if have == 0:
            problems.append(f'job {jobs[ji].get("label")}: no path could be shown satisfiable (possible vacuity)')
    for d in diffs:
        if not d.get('ok'):
            problems.append(f'differential validation failed for job {jobs[d["idx"]].get("label")}: {d.get("why")}')
    # refutation-only jobs (job option undecided_ok): the obligation is beyond the solver on a correct tree; it is registered so
    # that a violation is found (solver model or explicit point, replayed natively), and is listed as NOT decided otherwise
    refute_only = [r for r in stats['undecided'] if jobs[r['job']].get('undecided_ok')]
    undec = [r for r in stats['undecided'] if not jobs[r['job']].get('undecided_ok')]
    if refute_only or soft_inconclusive:
        print(f'NOT-DECIDED {len(refute_only)} obligations of refutation-only jobs (searched for a counterexample, none found; not counted as discharged), e.g. ' +
              ', '.join(f'{jobs[r["job"]].get("label")}' for r in refute_only[:4]) + (f'; {len(soft_inconclusive)} more with a solver model that does not reproduce natively' if soft_inconclusive else ''))
    # ---------------------------------------------------------------- report
    for m_, (e, vs) in known_hits.items():
        print(f'KNOWN-FINDING: property={pid} {e["what"]}  [{len(vs)} obligations; e.g. {vs[0]["what"]}]')
    for v in new_viol[:20]:
        print(f'VIOLATION property={pid} replay={v["replay"]}  # {v["key"]}: {v["what"]} (confirmed: {v["confirmed"]})' + (f' [+{v["more"]} more sat obligations of this family]' if v.get('more') else ''))
    for p in problems[:30]:
        print('PROBLEM', p)
    if undec:
        print(f'UNDECIDED {len(undec)} obligations (not counted as discharged), e.g. ' +
              ', '.join(f'{jobs[r["job"]].get("label")}:{r["tag"]}[{r["k"]}]={r["answer"]}' for r in undec[:5]))
    cov = dict(
        explanation='bounded symbolic execution of the LLVM IR of the real sources (llsym) + SMT (z3 4.8.12 / cvc5 1.0.3): one query per obligation',
        obligations=stats['obligations'] - len(stats.get('witness_undecided', [])), discharged=stats['discharged'], trivial_same_term=stats['trivial'],
        evaluations=stats['queries'], distinct_nontrivial=stats['obligations'] - stats['trivial'],
        rule='an obligation is one assertion of one path of one harness configuration; it is non-trivial when its two sides are different hash-consed terms (a solver query was needed)',
        undecided=[dict(job=jobs[r['job']].get('label'), obligation=f'{r["tag"]}[{r["k"]}]', answer=r['answer']) for r in undec[:50]],
        n_undecided=len(undec),
        refutation_only_model_not_reproduced=soft_inconclusive[:80],
        refutation_only_not_decided=[dict(job=jobs[r['job']].get('label'), obligation=f'{r["tag"]}[{r["k"]}]', answer=r['answer']) for r in refute_only[:80]],
        sat_obligations=len(stats['sat']), known_finding_obligations=sum(len(vs) for e, vs in known_hits.values()),
        path_witnesses_sat=stats['witness_ok'], path_feasibility_undecided=len(stats.get('witness_undecided', [])), path_witnesses_concrete=sum(s.get('concrete_witnesses', 0) for s in summaries), path_witnesses_numeric_only=sum(s.get('numeric_witnesses', 0) for s in summaries),
        jobs=[dict(label=jobs[s['idx']].get('label'), entry=s['entry'], args=s['args'], paths=len(s['paths']), outcomes=s['outcomes'],
                   ir_steps=s['steps'], symbols=s['nsyms'], terms=s['nterms'], obligations=s['obligations'], trivial=s['trivial'],
                   exec_s=round(s.get('exec_s', 0), 2)) for s in summaries][:200],
        functions_executed=top_functions(summaries), stubs_hit=ext_hits(summaries),
        block_coverage=coverage.report(mod, summaries) if not a.only else dict(note='partial run (--only)'),
        libm_small_values=libm_log(summaries),
        solver_time_s=round(stats['solver_time'], 2), slowest_batches=slowest, goals_by_solver=stats['by_solver'],
        differential=dict(runs=len(diffs), ok=sum(1 for d in diffs if d.get('ok')), values_compared=sum(d.get('compared', 0) for d in diffs)),
        build=dict(sources=[os.path.relpath(f, build.REPO) if f.startswith(build.REPO) else os.path.relpath(f, VERIF) for f in files],
                   ir_flags=' '.join(build.IRFLAGS + flags), module=os.path.basename(ll), build_s=round(t_build, 1), parse_s=round(t_parse, 1)),
        bounds=getattr(P, 'BOUNDS', {}).get(tier, getattr(P, 'BOUNDS', {})),
        outside=getattr(P, 'OUTSIDE', []),
        samples=samples or [dict(note='no solver query was needed')],
        checker_cmd='z3 <file.smt2> / cvc5 --incremental <file.smt2>', trusted_base=['clang 14 -O1', 'llsym interpreter', 'z3 4.8.12', 'cvc5 1.0.3'],
        problems=problems[:30],
        violations=[dict(key=v['key'], what=v['what'], replay=v['replay'], confirmed=v['confirmed']) for v in new_viol[:30]],
        known_findings=[dict(match=m_, what=e['what'], obligations=len(vs)) for m_, (e, vs) in known_hits.items()],
        wall_phases=dict(build=round(t_build, 1), exec=round(t_exec, 1), solve=round(t_solve, 1)),
    )
    ok_expected = True
    for e in known:
        if e.get('status') == 'known' and e.get('must_show', True) and e['match'] not in known_hits and e.get('tier', tier) == tier:
            # a recorded finding that no longer shows is worth a note, not a failure
            print(f'NOTE: recorded finding "{e["match"]}" did not show in this run')
    rc = 0
    if new_viol:
        rc = 1
    elif problems or (undec and quick and not getattr(P, 'UNDECIDED_OK', False)):
        rc = 2      # quick tier: every registered obligation must be decided; thorough tier: undecided ones are listed, not counted
    res = finish(P, tier, seed, t0, cov, violations=len(new_viol), a=a, workroot=workroot, rc=rc)
    print(f'[{pid}] obligations={stats["obligations"]} discharged={stats["discharged"]} (trivial {stats["trivial"]}) sat={len(stats["sat"])} '
          f'undecided={len(undec)} known={sum(len(vs) for e, vs in known_hits.values())} violations={len(new_viol)} '
          f'wall={time.time() - t0:.1f}s exit={rc}')
    return res


def confirm(exe, job, rec, env, valsfile):
    """replay a model natively; returns a description when it reproduces, None otherwise"""
    kind = rec['kind']
    if kind == 'indep':
        fam = (rec['batch']['goals'][rec['gi']].get('extra') or '') + '_'
        rc1, c1, o1 = driver.native_replay(exe, job, valsfile)
        env2 = dict(env)
        for k in list(env):
            if k.endswith('__alt'):
                env2[k[:-5]] = env[k]
        f2 = valsfile + '.alt'
        driver.write_vals(f2, env2, open(valsfile).read().split('\n')[0][2:])
        # copy header
        hdr = ''.join(l for l in open(valsfile) if l.startswith('#'))
        body = ''.join(l for l in open(f2) if not l.startswith('#'))
        open(f2, 'w').write(hdr + body)
        rc2, c2, o2 = driver.native_replay(exe, job, f2)
        k = (rec['tag'], rec['k'], 'indep')
        if k in c1 and k in c2 and c1[k][1] != c2[k][1]:
            return f'native runs with two different "{fam}*" contents give {c1[k][3].split()[0]} vs {c2[k][3].split()[0]}'
        return None
    rc, chks, out = driver.native_replay(exe, job, valsfile)
    k = (rec['tag'], rec['k'], kind)
    if k in chks and not chks[k][0]:
        vals = chks[k][3]
        if 'nan' in vals or 'inf' in vals:
            return None
        return f'native replay: {vals}'
    return None


def demangle_short(name):
    n = name.lstrip('@')
    try:
        import subprocess
        r = subprocess.run(['c++filt', n], capture_output=True, text=True)
        d = r.stdout.strip()
        return d.split('(')[0][-80:]
    except Exception:
        return n[-80:]


def top_functions(summaries):
    tot = {}
    for s in summaries:
        for k, v in s['fn_steps'].items():
            tot[k] = tot.get(k, 0) + v
    items = sorted(tot.items(), key=lambda kv: -kv[1])[:40]
    names = [k.lstrip('@') for k, v in items]
    try:
        import subprocess
        r = subprocess.run(['c++filt'] + names, capture_output=True, text=True)
        dn = r.stdout.strip().split('\n')
    except Exception:
        dn = names
    return [dict(function=d[:160], ir_steps_inclusive=v) for d, (k, v) in zip(dn, items)]


def ext_hits(summaries):
    tot = {}
    for s in summaries:
        for k, v in s['ext_hits'].items():
            tot[k] = tot.get(k, 0) + v
    return {k: v for k, v in sorted(tot.items(), key=lambda kv: -kv[1])[:60]}


def libm_log(summaries):
    out = {}
    for s in summaries:
        for k, v in list(s.get('libm_log', {}).items())[:10]:
            out[k] = v
        if len(out) > 30:
            break
    return out


def finish(P, tier, seed, t0, cov, violations=0, broken=None, a=None, workroot=None, rc=2):
    ev = dict(property_id=P.ID, tier=tier, seed=seed, level='other', wall_s=round(time.time() - t0, 2), violations=violations,
              assumptions=list(getattr(P, 'ASSUMPTIONS', [])))
    if cov is None:
        cov = dict(explanation='check broken: engine failure, no verdict', evaluations=0, distinct_nontrivial=0, problems=broken)
    ev['coverage'] = cov
    if not (a and a.no_evidence):
        os.makedirs(os.path.join(VERIF, 'evidence'), exist_ok=True)
        tmp = os.path.join(VERIF, 'evidence', P.ID + '.json.tmp')
        with open(tmp, 'w') as f:
            json.dump(ev, f, indent=1, default=str)
        os.replace(tmp, os.path.join(VERIF, 'evidence', P.ID + '.json'))
    if workroot and not (a and a.keep):
        shutil.rmtree(workroot, ignore_errors=True)
    build.cache_gc()
    return rc


if __name__ == '__main__':
    sys.exit(main())
