# SMT-LIB2 printing of term DAGs and the solver runner.
import os, re, subprocess, tempfile, time, resource
from fractions import Fraction
from .terms import Term, reachable, is_const

Z3 = '/usr/bin/z3'          # 4.8.12: deciding back end for non-linear real / integer / FP families
Z3NEW = 'z3-new'            # 5.1: cross-check for the non-linear families
CVC5 = '/usr/bin/cvc5'      # deciding back end for the linear real families

OPN = {'add': '+', 'sub': '-', 'mul': '*', 'div': '/', 'neg': '-', 'lt': '<', 'le': '<=', 'eq': '=', 'not': 'not',
       'and': 'and', 'or': 'or', 'ite': 'ite', 'iadd': '+', 'isub': '-', 'imul': '*', 'idiv': 'div', 'imod': 'mod',
       'to_real': 'to_real', 'to_int': 'to_int'}


def num(c, sort):
    if sort == 'I':
        c = int(c)
        return f'(- {-c})' if c < 0 else str(c)
    f = Fraction(c)
    s = f'{abs(f.numerator)}.0' if f.denominator == 1 else f'(/ {abs(f.numerator)}.0 {f.denominator}.0)'
    return f'(- {s})' if f < 0 else s


def arg_sort(t, k):
    """sort expected for argument k of term t (for printing python constants)"""
    o = t.op
    if o in ('iadd', 'isub', 'imul', 'idiv', 'imod', 'to_real'):
        return 'I'
    if o in ('lt', 'le', 'eq'):
        other = t.args[1 - k]
        if isinstance(other, Term):
            return other.sort
        return 'R'
    if o == 'ite':
        return 'B' if k == 0 else t.sort
    if o in ('not', 'and', 'or'):
        return 'B'
    return 'R'


def expr(t, name_of):
    o = t.op
    a = []
    for k, x in enumerate(t.args):
        if isinstance(x, str):
            continue
        if isinstance(x, Term):
            a.append(name_of[x.id])
        elif isinstance(x, bool):
            a.append('true' if x else 'false')
        else:
            srt = arg_sort(t, k)
            if srt == 'B':
                a.append('true' if x else 'false')
            else:
                a.append(num(x, srt))
    if o == 'abs':
        return f'(ite (>= {a[0]} 0.0) {a[0]} (- {a[0]}))'
    if o == 'uf':
        return f'({t.args[0]} ' + ' '.join(a) + ')'
    return f'({OPN[o]} ' + ' '.join(a) + ')'


SORTN = {'R': 'Real', 'I': 'Int', 'B': 'Bool'}


class Linearity:
    def __init__(s):
        s.nonlinear = False
        s.has_int = False
        s.has_real = False
        s.has_uf = False


def classify(terms):
    L = Linearity()
    for t in terms:
        if t.sort == 'I':
            L.has_int = True
        elif t.sort == 'R':
            L.has_real = True
        o = t.op
        if o in ('mul', 'imul'):
            if isinstance(t.args[0], Term) and isinstance(t.args[1], Term):
                L.nonlinear = True
        elif o in ('div',):
            if isinstance(t.args[1], Term):
                L.nonlinear = True
        elif o in ('idiv', 'imod'):
            if isinstance(t.args[1], Term):
                L.nonlinear = True
        elif o == 'uf':
            L.has_uf = True
        elif o in ('to_real', 'to_int'):
            L.has_int = True
            L.has_real = True
    return L


def logic_of(L):
    if L.has_int and L.has_real:
        return None
    if L.has_int:
        if L.has_uf:
            return None
        return 'QF_NIA' if L.nonlinear else 'QF_LIA'
    if L.has_uf:
        return 'QF_UFNRA' if L.nonlinear else 'QF_UFLRA'
    return 'QF_NRA' if L.nonlinear else 'QF_LRA'


def build(assumptions, goals, extra_asserts=(), want_values=None, decimal=True):
    """assumptions: Bool terms (or python bools); goals: list of Bool terms whose *negation is NOT applied here* —
    each goal is asserted as is inside its own push/pop (the caller passes the negated property).
    Returns (text, logic, n_defs)."""
    roots = [a for a in assumptions if isinstance(a, Term)] + [g for g in goals if isinstance(g, Term)]
    ts = reachable(roots)
    L = classify(ts)
    logic = logic_of(L)
    name_of = {}
    lines = []
    # Ackermann reduction of uninterpreted functions (keeps the query in QF_NRA where nlsat is fast in both directions):
    # every application becomes a fresh constant, plus (args equal => values equal) for each pair of the same function.
    uf_apps = {}
    for t in ts:
        if t.op == 'uf':
            uf_apps.setdefault((t.args[0], len(t.args) - 1), []).append(t)
    ackermann = bool(uf_apps) and all(len(v) <= 96 for v in uf_apps.values())
    if ackermann:
        L.has_uf = False
        logic = logic_of(L)
    if logic:
        lines.append(f'(set-logic {logic})')
    ufs = {}
    defs = []
    cons = []
    for t in ts:
        if t.op == 'sym':
            name_of[t.id] = t.args[0]
            lines.append(f'(declare-fun {t.args[0]} () {SORTN[t.sort]})')
        elif t.op == 'uf' and ackermann:
            nm = f't{t.id}'
            name_of[t.id] = nm
            defs.append(f'(declare-fun {nm} () Real)')
        else:
            if t.op == 'uf':
                ufs[t.args[0]] = len(t.args) - 1
            nm = f't{t.id}'
            defs.append(f'(define-fun {nm} () {SORTN[t.sort]} {expr(t, name_of)})')
            name_of[t.id] = nm
    if ackermann:
        for (fn, ar), apps in uf_apps.items():
            for i in range(len(apps)):
                for j in range(i + 1, len(apps)):
                    eqs = []
                    for x, y in zip(apps[i].args[1:], apps[j].args[1:]):
                        xs = name_of[x.id] if isinstance(x, Term) else num(x, 'R')
                        ys = name_of[y.id] if isinstance(y, Term) else num(y, 'R')
                        eqs.append(f'(= {xs} {ys})')
                    pre = eqs[0] if len(eqs) == 1 else '(and ' + ' '.join(eqs) + ')'
                    cons.append(f'(=> {pre} (= t{apps[i].id} t{apps[j].id}))')
    for u, n in sorted(ufs.items()):
        lines.append(f'(declare-fun {u} ({" ".join(["Real"] * n)}) Real)')
    lines += defs
    for c in cons:
        lines.append(f'(assert {c})')

    def ref(x):
        if isinstance(x, Term):
            return name_of[x.id]
        return 'true' if x else 'false'
    for a in assumptions:
        lines.append(f'(assert {ref(a)})')
    for e in extra_asserts:
        lines.append(f'(assert {e})')
    single = len(goals) == 1
    for g in goals:
        if not single:
            lines.append('(push 1)')
        lines.append(f'(assert {ref(g)})')
        lines.append('(check-sat)')
        if want_values and single:
            lines.append('(get-value (' + ' '.join(want_values) + '))')
        if not single:
            lines.append('(pop 1)')
    return '\n'.join(lines) + '\n', logic, len(defs)


def _limit():
    try:
        resource.setrlimit(resource.RLIMIT_AS, (8 << 30, 8 << 30))
    except Exception:
        pass


def run(text, solver, timeout_s, workdir, tag='q', per_query_ms=None, decimal=False):
    """returns (answers, wall, raw) where answers is a list of 'sat'|'unsat'|'unknown'|'timeout'|'error:<msg>'"""
    os.makedirs(workdir, exist_ok=True)
    fd, path = tempfile.mkstemp(prefix=tag + '_', suffix='.smt2', dir=workdir)
    with os.fdopen(fd, 'w') as f:
        f.write(text)
    if solver == 'z3':
        cmd = [Z3, f'-T:{int(timeout_s) + 5}']      # hard limit inside the solver too: no orphan outlives a killed check
        if per_query_ms:
            cmd.append(f'-t:{per_query_ms}')
        if decimal:
            cmd += ['pp.decimal=true', 'pp.decimal_precision=30']
        cmd.append(path)
    elif solver == 'z3new':
        cmd = [Z3NEW, f'-T:{int(timeout_s) + 5}']
        if per_query_ms:
            cmd.append(f'-t:{per_query_ms}')
        if decimal:
            cmd += ['pp.decimal=true', 'pp.decimal_precision=30']
        cmd.append(path)
    elif solver == 'cvc5':
        cmd = [CVC5, '--incremental', f'--tlimit={(int(timeout_s) + 5) * 1000}']
        if per_query_ms:
            cmd.append(f'--tlimit-per={per_query_ms}')
        if 'get-value' in text:
            cmd.append('--produce-models')
        cmd.append(path)
    else:
        raise ValueError(solver)
    t0 = time.time()
    try:
        r = subprocess.run(cmd, capture_output=True, text=True, timeout=timeout_s, preexec_fn=_limit)
        out = r.stdout + r.stderr
        timed_out = False
    except subprocess.TimeoutExpired as e:
        out = (e.stdout.decode() if isinstance(e.stdout, bytes) else (e.stdout or ''))
        timed_out = True
    wall = time.time() - t0
    n_expected = text.count('(check-sat)')
    answers = []
    out_chk = '\n'.join(l for l in out.split('\n') if 'model is not available' not in l and 'cannot get value' not in l.lower() and 'cannot get model' not in l.lower())
    if '(error' in out_chk:
        m = re.search(r'\(error[^\n]*', out)
        answers = ['error:' + m.group(0)[:200]] * n_expected
    else:
        for ln in out.split('\n'):
            ln = ln.strip()
            if ln in ('sat', 'unsat', 'unknown'):
                answers.append(ln)
            elif ln.startswith('timeout'):
                answers.append('unknown')
        while len(answers) < n_expected:
            answers.append('timeout' if timed_out else 'unknown')
    try:
        os.unlink(path)
    except OSError:
        pass
    return answers, wall, out


# ------------------------------------------------------------------ model parsing
def _tokens(s):
    return re.findall(r'\(|\)|[^\s()]+', s)


def _parse(toks, i):
    if toks[i] == '(':
        lst = []
        i += 1
        while toks[i] != ')':
            x, i = _parse(toks, i)
            lst.append(x)
        return lst, i + 1
    return toks[i], i + 1


def _val(x):
    if isinstance(x, str):
        if x == 'true':
            return True
        if x == 'false':
            return False
        x = x.rstrip('?')
        return Fraction(x)
    if x[0] == 'fp' and len(x) == 4:
        def bits(t):
            return bin(int(t[2:], 16))[2:].zfill(4 * (len(t) - 2)) if t.startswith('#x') else t[2:]
        b = bits(x[1]) + bits(x[2]) + bits(x[3])
        import struct
        return struct.unpack('<d', struct.pack('<Q', int(b, 2)))[0]
    if x[0] == '_' and len(x) == 4 and x[1] in ('+zero', '-zero'):
        return 0.0
    if x[0] == '-':
        if len(x) == 2:
            return -_val(x[1])
        return _val(x[1]) - _val(x[2])
    if x[0] == '/':
        return _val(x[1]) / _val(x[2])
    if x[0] == '+':
        return sum(_val(y) for y in x[1:])
    if x[0] == '*':
        r = Fraction(1)
        for y in x[1:]:
            r *= _val(y)
        return r
    if x[0] == 'to_real':
        return _val(x[1])
    raise ValueError(f'model value {x}')


def parse_values(out):
    """parse the ((name value) ...) block printed by get-value"""
    i = out.find('((')
    if i < 0:
        return None
    toks = _tokens(out[i:])
    try:
        lst, _ = _parse(toks, 0)
    except IndexError:
        return None
    env = {}
    for item in lst:
        try:
            env[item[0]] = _val(item[1])
        except Exception:
            env[item[0]] = None   # algebraic number etc.
    return env
