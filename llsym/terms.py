# Term DAG of the symbolic executor.
#   sort 'R' : exact real (the value a double denotes)
#   sort 'I' : mathematical integer (signed reading of an IR integer)
#   sort 'B' : Boolean
# Terms are hash-consed; a child always has a smaller id than its parent, so sorting by id is a
# topological order (used by the SMT printer instead of recursion).
import sys
from fractions import Fraction

sys.set_int_max_str_digits(0)


class Term:
    __slots__ = ('op', 'args', 'id', 'sort')
    _tab = {}
    _n = 0

    def __new__(cls, op, args, sort='R'):
        key = (op, args, sort)
        t = Term._tab.get(key)
        if t is None:
            t = object.__new__(cls)
            t.op = op
            t.args = args
            t.sort = sort
            Term._n += 1
            t.id = Term._n
            Term._tab[key] = t
        return t

    def __repr__(s):
        return show(s, 6)


def reset_terms():
    Term._tab = {}
    Term._n = 0


def show(t, depth=6):
    if not isinstance(t, Term):
        return str(t)
    if t.op == 'sym':
        return t.args[0]
    if depth <= 0:
        return f't{t.id}'
    return '(' + t.op + ' ' + ' '.join(show(a, depth - 1) if not isinstance(a, str) else a for a in t.args) + ')'


def is_const(x):
    return isinstance(x, (Fraction, int)) and not isinstance(x, bool)


def sym(name, sort='R'):
    return Term('sym', (name,), sort)


# ---------------------------------------------------------------- reals
ROUND_CONCRETE = [False]


class DivByZeroConst(Exception):
    pass


def mk(op, a, b=None):
    """real arithmetic; folding only with identities exact in R"""
    if op == 'neg':
        if is_const(a):
            return -a
        if a.op == 'neg':
            return a.args[0]
        return Term('neg', (a,))
    ca = is_const(a)
    cb = is_const(b)
    if ca and cb:
        if ROUND_CONCRETE[0]:
            # concrete (operand-free) arithmetic follows IEEE double rounding: used where a long concrete computation
            # (e.g. an ODE integration in a constructor) would otherwise grow rationals without bound
            fa, fb = float(a), float(b)
            if op == 'add':
                return Fraction(fa + fb)
            if op == 'sub':
                return Fraction(fa - fb)
            if op == 'mul':
                return Fraction(fa * fb)
            if op == 'div':
                if fb == 0:
                    raise DivByZeroConst()
                return Fraction(fa / fb)
        if op == 'add':
            return Fraction(a) + b
        if op == 'sub':
            return Fraction(a) - b
        if op == 'mul':
            return Fraction(a) * b
        if op == 'div':
            if b == 0:
                raise DivByZeroConst()
            return Fraction(a) / b
    if op == 'add':
        if ca and a == 0:
            return b
        if cb and b == 0:
            return a
    elif op == 'sub':
        if cb and b == 0:
            return a
        if ca and a == 0:
            return mk('neg', b)
    elif op == 'mul':
        if (ca and a == 0) or (cb and b == 0):
            return Fraction(0)
        if ca and a == 1:
            return b
        if cb and b == 1:
            return a
    elif op == 'div':
        if cb:
            if b == 0:
                raise DivByZeroConst()
            if b == 1:
                return a
            return Term('mul', (a, Fraction(1) / b))  # exact: division by a constant
        if ca and a == 0:
            # 0/d = 0 whenever d != 0; d != 0 is recorded by the caller as a premise
            return Term('div', (Fraction(0), b))
    if ca:
        a = Fraction(a)
    if cb:
        b = Fraction(b)
    return Term(op, (a, b))


def mk_cmp(p, a, b):
    """p in lt le gt ge eq ne on reals or ints -> Bool term or python bool"""
    if is_const(a) and is_const(b):
        return {'lt': a < b, 'le': a <= b, 'gt': a > b, 'ge': a >= b, 'eq': a == b, 'ne': a != b}[p]
    if a is b:
        return p in ('le', 'ge', 'eq')
    if p == 'gt':
        return Term('lt', (b, a), 'B')
    if p == 'ge':
        return Term('le', (b, a), 'B')
    if p == 'ne':
        return mk_not(Term('eq', (a, b), 'B'))
    return Term(p, (a, b), 'B')


def mk_not(c):
    if isinstance(c, bool):
        return not c
    if isinstance(c, int):
        return not c
    if c.op == 'not':
        return c.args[0]
    return Term('not', (c,), 'B')


def mk_and(a, b):
    if not isinstance(a, Term):
        return b if a else False
    if not isinstance(b, Term):
        return a if b else False
    if a is b:
        return a
    return Term('and', (a, b), 'B')


def mk_or(a, b):
    if not isinstance(a, Term):
        return True if a else b
    if not isinstance(b, Term):
        return True if b else a
    if a is b:
        return a
    return Term('or', (a, b), 'B')


def mk_ite(c, a, b, sort):
    if not isinstance(c, Term):
        return a if c else b
    if a is b:
        return a
    if is_const(a) and is_const(b) and a == b:
        return a
    if sort == 'B':
        # keep Booleans as terms
        if not isinstance(a, Term) and not isinstance(b, Term):
            if a and not b:
                return c
            if b and not a:
                return mk_not(c)
    return Term('ite', (c, a, b), sort)


# ---------------------------------------------------------------- ints (mathematical)
def imk(op, a, b):
    ca = isinstance(a, int)
    cb = isinstance(b, int)
    if ca and cb:
        if op == 'add':
            return a + b
        if op == 'sub':
            return a - b
        if op == 'mul':
            return a * b
    if op == 'add':
        if ca and a == 0:
            return b
        if cb and b == 0:
            return a
    elif op == 'sub':
        if cb and b == 0:
            return a
    elif op == 'mul':
        if (ca and a == 0) or (cb and b == 0):
            return 0
        if ca and a == 1:
            return b
        if cb and b == 1:
            return a
    return Term('i' + op, (a, b), 'I')


def i_ediv(a, b):
    """Euclidean/SMT-LIB div; b > 0 is the caller's business"""
    if isinstance(a, int) and isinstance(b, int):
        return a // b if b > 0 else -(a // -b)
    return Term('idiv', (a, b), 'I')


def i_emod(a, b):
    if isinstance(a, int) and isinstance(b, int):
        return a % abs(b)
    return Term('imod', (a, b), 'I')


def i_tdiv(a, b):
    """C truncating division on mathematical ints (b != 0 premise is recorded by the caller)"""
    if isinstance(a, int) and isinstance(b, int):
        q = abs(a) // abs(b)
        return -q if (a < 0) != (b < 0) else q
    na = imk('sub', 0, a)
    nb = imk('sub', 0, b)
    apos = mk_cmp('ge', a, 0)
    bpos = mk_cmp('gt', b, 0)
    return mk_ite(apos,
                  mk_ite(bpos, i_ediv(a, b), imk('sub', 0, i_ediv(a, nb)), 'I'),
                  mk_ite(bpos, imk('sub', 0, i_ediv(na, b)), i_ediv(na, nb), 'I'), 'I')


def i_trem(a, b):
    return imk('sub', a, imk('mul', b, i_tdiv(a, b)))


def i_unsigned(a, bits):
    if isinstance(a, int):
        return a & ((1 << bits) - 1)
    return mk_ite(mk_cmp('ge', a, 0), a, imk('add', a, 1 << bits), 'I')


def i_wrap_signed(a, bits):
    """two's complement reading of the low `bits` bits"""
    if isinstance(a, int):
        a &= (1 << bits) - 1
        return a - (1 << bits) if a >> (bits - 1) else a
    h = 1 << (bits - 1)
    return imk('sub', i_emod(imk('add', a, h), 1 << bits), h)


# ---------------------------------------------------------------- traversal helpers
def reachable(roots):
    """all Terms reachable from roots, sorted by id (children first)"""
    seen = {}
    stack = [r for r in roots if isinstance(r, Term)]
    while stack:
        t = stack.pop()
        if t.id in seen:
            continue
        seen[t.id] = t
        for a in t.args:
            if isinstance(a, Term) and a.id not in seen:
                stack.append(a)
    return [seen[k] for k in sorted(seen)]


def symbols_of(roots):
    return [t for t in reachable(roots) if t.op == 'sym']


def substitute(root, mapping):
    """mapping: Term(sym) -> Term/const.  Rebuilds bottom-up."""
    if not isinstance(root, Term):
        return root
    new = {}
    for t in reachable([root]):
        if t in mapping:
            new[t.id] = mapping[t]
            continue
        if t.op == 'sym':
            new[t.id] = t
            continue
        args = tuple(new[a.id] if isinstance(a, Term) else a for a in t.args)
        if all(x is y for x, y in zip(args, t.args)):
            new[t.id] = t
        else:
            new[t.id] = rebuild(t.op, args, t.sort)
    return new[root.id]


def rebuild(op, args, sort):
    if sort == 'R' and op in ('add', 'sub', 'mul', 'div'):
        return mk(op, args[0], args[1])
    if sort == 'R' and op == 'neg':
        return mk('neg', args[0])
    return Term(op, args, sort)


def evaluate(root, env, exact=True, approx=False):
    if not isinstance(root, Term):
        return root
    return evaluate_all([root], env, approx)[0][root.id]


import math as _math
_REAL_FUNCS = {'exp': _math.exp}     # the only function whose axioms (exp > 0, exp(x) exp(-x) = 1) an arbitrary interpretation cannot satisfy


# job option real_ufs: sin, cos, tanh, atan (created only by the libm stubs, so they denote the true functions) are
# evaluated with their true values in NUMERIC point evaluation as well (needed when a path's assumptions tie them together)
REAL_UFS = [False]
_REAL_EXTRA = {'sin': _math.sin, 'cos': _math.cos, 'tanh': _math.tanh, 'atan': _math.atan, 'log': _math.log}


def _uf_value(name, argv):
    import hashlib
    h = int.from_bytes(hashlib.sha256((name + repr(argv)).encode()).digest()[:4], 'little')
    return 1 + Fraction(h % 1024, 1024)


def evaluate_all(roots, env, approx=False):
    """evaluate a set of terms under env: name -> Fraction/int/bool (floats when approx).
    Uninterpreted functions get an arbitrary deterministic interpretation (a function of the argument values);
    returns (values by term id, {uf term id: value})."""
    import math
    val = {}
    ufv = {}

    def g(a):
        return val[a.id] if isinstance(a, Term) else a
    for t in reachable(roots):
        o = t.op
        if o == 'sym':
            val[t.id] = env[t.args[0]]
            continue
        a = [g(x) for x in t.args if not isinstance(x, str)]
        if o == 'add' or o == 'iadd':
            v = a[0] + a[1]
        elif o == 'sub' or o == 'isub':
            v = a[0] - a[1]
        elif o == 'mul' or o == 'imul':
            v = a[0] * a[1]
        elif o == 'div':
            if a[1] == 0:
                raise ZeroDivisionError()
            v = (a[0] / a[1]) if approx else Fraction(a[0]) / a[1]
        elif o == 'neg':
            v = -a[0]
        elif o == 'abs':
            v = abs(a[0])
        elif o == 'idiv':
            v = a[0] // a[1] if a[1] > 0 else -(a[0] // -a[1])
        elif o == 'imod':
            v = a[0] % abs(a[1])
        elif o == 'lt':
            v = (a[0] < a[1] - 1e-7 * (1 + abs(a[0]) + abs(a[1]))) if approx else a[0] < a[1]
        elif o == 'le':
            v = a[0] <= a[1]
        elif o == 'eq':
            v = (abs(a[0] - a[1]) <= 1e-9 * (1 + abs(a[0]) + abs(a[1]))) if approx else a[0] == a[1]
        elif o == 'not':
            v = not a[0]
        elif o == 'and':
            v = a[0] and a[1]
        elif o == 'or':
            v = a[0] or a[1]
        elif o == 'ite':
            v = a[1] if a[0] else a[2]
        elif o == 'to_real':
            v = float(a[0]) if approx else Fraction(a[0])
        elif o == 'to_int':
            v = math.floor(a[0])
        elif o == 'uf':
            if t.args[0] == 'sqrt':
                if approx:
                    v = math.sqrt(a[0])
                else:
                    f = Fraction(a[0])
                    rn, rd = (math.isqrt(f.numerator) if f.numerator >= 0 else -1), math.isqrt(f.denominator)
                    if rn < 0 or rn * rn != f.numerator or rd * rd != f.denominator:
                        raise KeyError('irrational sqrt')
                    v = Fraction(rn, rd)
            elif t.args[0] in _REAL_FUNCS or (REAL_UFS[0] and t.args[0] in _REAL_EXTRA):
                # functions constrained by axioms (exp x exp(-x) = 1, sin^2 + cos^2 = 1, ...): only their true values satisfy them
                if not approx:
                    raise KeyError('transcendental value')
                v = (_REAL_FUNCS.get(t.args[0]) or _REAL_EXTRA[t.args[0]])(*[float(x) for x in a])
            else:
                v = _uf_value(t.args[0], tuple(a))
                if approx:
                    v = float(v)
            ufv[t.id] = v
        else:
            raise KeyError(f'evaluate: {o}')
        val[t.id] = v
    return val, ufv


# ---------------------------------------------------------------- formal differentiation (C19)
def diff(root, wrt):
    """d root / d v where wrt maps symbol names to their derivative w.r.t. v (chain rule: e.g. d sin_theta/d theta = cos_theta).
    Uninterpreted sqrt/exp/log/sin/cos/atan/tanh/pow(x, const) are differentiated by their calculus rules."""
    if not isinstance(root, Term):
        return Fraction(0)
    D = {}

    def g(a):
        return D[a.id] if isinstance(a, Term) else Fraction(0)
    for t in reachable([root]):
        o = t.op
        a = t.args
        if t.sort != 'R':
            D[t.id] = Fraction(0)      # Boolean / integer sub-terms (conditions of ite): no derivative
            continue
        if o == 'sym':
            d = wrt.get(a[0], Fraction(0))
        elif o == 'add':
            d = mk('add', g(a[0]), g(a[1]))
        elif o == 'sub':
            d = mk('sub', g(a[0]), g(a[1]))
        elif o == 'neg':
            d = mk('neg', g(a[0]))
        elif o == 'mul':
            d = mk('add', mk('mul', g(a[0]), a[1]), mk('mul', a[0], g(a[1])))
        elif o == 'div':
            d = mk('div', mk('sub', mk('mul', g(a[0]), a[1]), mk('mul', a[0], g(a[1]))), mk('mul', a[1], a[1]))
        elif o == 'ite':
            d = mk_ite(a[0], g(a[1]), g(a[2]), 'R')
        elif o == 'uf':
            fn, x = a[0], a[1]
            dx = g(x)
            if is_const(dx) and dx == 0 and fn != 'pow':
                d = Fraction(0)
            elif fn == 'sqrt':
                d = mk('div', dx, mk('mul', Fraction(2), t))
            elif fn == 'exp':
                d = mk('mul', dx, t)
            elif fn == 'log':
                d = mk('div', dx, x)
            elif fn == 'sin':
                d = mk('mul', Term('uf', ('cos', x)), dx)
            elif fn == 'cos':
                d = mk('neg', mk('mul', Term('uf', ('sin', x)), dx))
            elif fn == 'atan':
                d = mk('div', dx, mk('add', Fraction(1), mk('mul', x, x)))
            elif fn == 'tanh':
                d = mk('mul', dx, mk('sub', Fraction(1), mk('mul', t, t)))
            elif fn == 'pow' and is_const(a[2]):
                e = Fraction(a[2])
                d = mk('mul', mk('mul', e, Term('uf', ('pow', x, e - 1))), dx)
            else:
                raise KeyError(f'diff: no rule for {fn}')
        else:
            raise KeyError(f'diff: {o}')
        D[t.id] = d
    return D[root.id]


# ---------------------------------------------------------------- linear normal form of integer terms
def int_linear(t):
    """integer term -> (const, {atom id: (coeff, atom)}) through iadd / isub / imul-by-constant"""
    if isinstance(t, int):
        return t, {}
    if not isinstance(t, Term):
        return 0, {id(t): (1, t)}
    o = t.op
    if o in ('iadd', 'isub'):
        c1, m1 = int_linear(t.args[0])
        c2, m2 = int_linear(t.args[1])
        sg = 1 if o == 'iadd' else -1
        m = dict(m1)
        for k, (cf, at) in m2.items():
            cur = m.get(k, (0, at))[0] + sg * cf
            if cur == 0:
                m.pop(k, None)
            else:
                m[k] = (cur, at)
        return c1 + sg * c2, m
    if o == 'imul':
        a, b = t.args
        if isinstance(a, int):
            c, m = int_linear(b)
            return a * c, {k: (a * cf, at) for k, (cf, at) in m.items() if a * cf != 0}
        if isinstance(b, int):
            c, m = int_linear(a)
            return b * c, {k: (b * cf, at) for k, (cf, at) in m.items() if b * cf != 0}
    return 0, {t.id: (1, t)}


def int_from_linear(c, m):
    r = c
    for k in sorted(m, key=lambda x: x if isinstance(x, int) else 0):
        cf, at = m[k]
        r = imk('add', r, imk('mul', cf, at))
    return r


def int_sub_normalised(a, b):
    ca, ma = int_linear(a)
    cb, mb = int_linear(b)
    m = dict(ma)
    for k, (cf, at) in mb.items():
        cur = m.get(k, (0, at))[0] - cf
        if cur == 0:
            m.pop(k, None)
        else:
            m[k] = (cur, at)
    return int_from_linear(ca - cb, m)
