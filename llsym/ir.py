# Minimal LLVM-14 textual IR parser (spike).  Typed pointers.
import re, sys
from fractions import Fraction
import struct as _struct

# ---------------- types ----------------
class T:
    pass
class IntT(T):
    def __init__(s, bits): s.bits = bits
    def __repr__(s): return f'i{s.bits}'
class FloatT(T):
    def __init__(s, kind): s.kind = kind
    def __repr__(s): return s.kind
class VoidT(T):
    def __repr__(s): return 'void'
class PtrT(T):
    def __init__(s, to): s.to = to
    def __repr__(s): return f'{s.to}*'
class ArrT(T):
    def __init__(s, n, el): s.n = n; s.el = el
    def __repr__(s): return f'[{s.n} x {s.el}]'
class VecT(T):
    def __init__(s, n, el): s.n = n; s.el = el
    def __repr__(s): return f'<{s.n} x {s.el}>'
class StructT(T):
    def __init__(s, fields, packed=False, name=None): s.fields = fields; s.packed = packed; s.name = name
    def __repr__(s): return s.name or ('{' + ', '.join(map(repr, s.fields)) + '}')
class NamedT(T):
    def __init__(s, name, mod): s.name = name; s.mod = mod
    def resolve(s): return s.mod.types[s.name]
    def __repr__(s): return s.name
class FuncT(T):
    def __init__(s, ret, params, vararg): s.ret = ret; s.params = params; s.vararg = vararg
    def __repr__(s): return f'{s.ret} (...)'
class OpaqueT(T):
    def __repr__(s): return 'opaque'
class LabelT(T): pass
class MetaT(T): pass

def res(t):
    while isinstance(t, NamedT):
        t = t.resolve()
    return t

def sizeof(t):
    t = res(t)
    if isinstance(t, IntT): return max(1, (t.bits + 7) // 8) if t.bits <= 64 else (t.bits + 7) // 8
    if isinstance(t, FloatT): return 8 if t.kind == 'double' else 4
    if isinstance(t, PtrT): return 8
    if isinstance(t, ArrT): return t.n * sizeof(t.el)
    if isinstance(t, VecT): return t.n * sizeof(t.el)
    if isinstance(t, StructT): return struct_layout(t)[1]
    if isinstance(t, FuncT): return 1
    raise Exception(f'sizeof {t}')

def alignof(t):
    t = res(t)
    if isinstance(t, IntT): return min(8, sizeof(t)) if t.bits <= 64 else 16
    if isinstance(t, FloatT): return sizeof(t)
    if isinstance(t, PtrT): return 8
    if isinstance(t, ArrT): return alignof(t.el)
    if isinstance(t, VecT): return sizeof(t)
    if isinstance(t, StructT):
        if t.packed: return 1
        return max([alignof(f) for f in t.fields] or [1])
    raise Exception(f'alignof {t}')

_layout_cache = {}
def struct_layout(t):
    k = id(t)
    if k in _layout_cache: return _layout_cache[k]
    off = 0; offs = []
    for f in t.fields:
        a = 1 if t.packed else alignof(f)
        off = (off + a - 1) // a * a
        offs.append(off)
        off += sizeof(f)
    a = alignof(t)
    size = (off + a - 1) // a * a
    _layout_cache[k] = (offs, size)
    return offs, size

# ---------------- tokenizer ----------------
TOK = re.compile(r'''
   \s+
 | ;[^\n]*
 | (?P<str>c?"(?:[^"\\]|\\.)*")
 | (?P<local>%[-a-zA-Z$._0-9]+|%"[^"]*")
 | (?P<glob>@[-a-zA-Z$._0-9]+|@"[^"]*")
 | (?P<meta>![-a-zA-Z$._0-9]*)
 | (?P<attr>\#[0-9]+)
 | (?P<hex>0x[KLMHR]?[0-9A-Fa-f]+)
 | (?P<num>-?[0-9]+\.[0-9]*(?:[eE][-+]?[0-9]+)?|-?[0-9]+)
 | (?P<dots>\.\.\.)
 | (?P<word>[a-zA-Z_][-a-zA-Z_0-9.]*)
 | (?P<punc>[\[\]{}()<>,=*:|])
''', re.X)

def tokenize(s):
    out = []; pos = 0; n = len(s)
    while pos < n:
        m = TOK.match(s, pos)
        if not m: raise Exception(f'tokenize error at {s[pos:pos+40]!r}')
        pos = m.end()
        k = m.lastgroup
        if k: out.append((k, m.group(k)))
    return out

class P:
    def __init__(s, toks, mod): s.t = toks; s.i = 0; s.mod = mod
    def peek(s, k=0): return s.t[s.i + k] if s.i + k < len(s.t) else ('eof', '')
    def next(s): x = s.t[s.i]; s.i += 1; return x
    def accept(s, v):
        if s.peek()[1] == v: s.i += 1; return True
        return False
    def expect(s, v):
        x = s.next()
        if x[1] != v: raise Exception(f'expected {v} got {x} near {s.t[max(0,s.i-8):s.i+5]}')
    def eof(s): return s.i >= len(s.t)

    # ---- types ----
    def ptype(s):
        k, v = s.next()
        if k == 'word':
            if v[0] == 'i' and v[1:].isdigit(): t = IntT(int(v[1:]))
            elif v in ('double', 'float', 'half', 'x86_fp80', 'fp128'): t = FloatT(v)
            elif v == 'void': t = VoidT()
            elif v == 'label': t = LabelT()
            elif v == 'metadata': t = MetaT()
            elif v == 'opaque': t = OpaqueT()
            elif v == 'ptr': t = PtrT(IntT(8))
            else: raise Exception(f'type? {v}')
        elif k == 'local': t = NamedT(v, s.mod)
        elif v == '[':
            n = int(s.next()[1]); s.expect('x'); el = s.ptype(); s.expect(']'); t = ArrT(n, el)
        elif v == '<':
            if s.peek()[1] == '{':
                s.next(); fs = s.ptypelist('}'); s.expect('>'); t = StructT(fs, True)
            else:
                n = int(s.next()[1]); s.expect('x'); el = s.ptype(); s.expect('>'); t = VecT(n, el)
        elif v == '{':
            fs = s.ptypelist('}'); t = StructT(fs)
        else: raise Exception(f'type? {k} {v}')
        while True:
            if s.peek()[1] == '*': s.next(); t = PtrT(t)
            elif s.peek()[1] == '(' :
                # function type
                s.next(); ps = []; va = False
                while not s.accept(')'):
                    if s.peek()[0] == 'dots': s.next(); va = True
                    else: ps.append(s.ptype())
                    s.accept(',')
                t = FuncT(t, ps, va)
            elif s.peek()[0] == 'word' and s.peek()[1] == 'addrspace':
                s.next(); s.expect('('); s.next(); s.expect(')')
            else: break
        return t
    def ptypelist(s, close):
        fs = []
        while not s.accept(close):
            fs.append(s.ptype()); s.accept(',')
        return fs

    # ---- values ----  returns ('const', py) | ('local', name) | ('global', name) | ('cexpr', op, ...) | ('undef',) | ('zero',) | ('agg', [...])
    def pvalue(s, ty):
        if isinstance(ty, MetaT): return ('meta',)
        k, v = s.next()
        if k == 'local': return ('local', v)
        if k == 'glob': return ('global', v)
        if k == 'num':
            rt = res(ty)
            if isinstance(rt, FloatT): return ('fconst', Fraction(v))
            return ('const', int(v))
        if k == 'hex':
            rt = res(ty)
            if isinstance(rt, FloatT):
                h = v[2:]
                if h[0] in 'KLMHR': raise Exception('unsupported hex float')
                bits = int(h, 16)
                d = _struct.unpack('<d', _struct.pack('<Q', bits))[0]
                return ('fconst', d)
            return ('const', int(v, 16))
        if k == 'word':
            if v == 'true': return ('const', 1)
            if v == 'false': return ('const', 0)
            if v == 'null': return ('null',)
            if v in ('undef', 'poison'): return ('undef',)
            if v == 'zeroinitializer': return ('zero',)
            if v in ('getelementptr',):
                s.accept('inbounds'); s.expect('(')
                bt = s.ptype(); s.expect(',')
                ops = []
                while True:
                    s.accept('inrange')
                    t2 = s.ptype(); ops.append((t2, s.pvalue(t2)))
                    if not s.accept(','): break
                s.expect(')')
                return ('cgep', bt, ops)
            if v in ('bitcast', 'ptrtoint', 'inttoptr', 'trunc', 'zext', 'sext', 'addrspacecast'):
                s.expect('('); t2 = s.ptype(); x = s.pvalue(t2); s.expect('to'); t3 = s.ptype(); s.expect(')')
                return ('ccast', v, t2, x, t3)
            if v in ('add', 'sub', 'mul', 'and', 'or', 'xor', 'shl', 'lshr', 'ashr', 'icmp', 'select'):
                raise Exception(f'unsupported cexpr {v}')
            raise Exception(f'value word? {v}')
        if k == 'str':
            assert v[0] == 'c'
            raw = v[2:-1]; bs = bytearray(); i = 0
            while i < len(raw):
                if raw[i] == '\\':
                    if raw[i+1] == '\\': bs.append(92); i += 2
                    else: bs.append(int(raw[i+1:i+3], 16)); i += 3
                else: bs.append(ord(raw[i])); i += 1
            return ('bytes', bytes(bs))
        if v == '{' or v == '[' or v == '<':
            packed = False
            if v == '<' and s.peek()[1] == '{': s.next(); packed = True; close = '}'
            else: close = {'{': '}', '[': ']', '<': '>'}[v]
            els = []
            while not s.accept(close):
                t2 = s.ptype(); els.append((t2, s.pvalue(t2))); s.accept(',')
            if packed: s.expect('>')
            return ('agg', els)
        raise Exception(f'value? {k} {v}')

    def ptyped(s):
        t = s.ptype()
        skip_attrs(s)
        return t, s.pvalue(t)

PARAM_ATTRS = {'noundef', 'nonnull', 'readonly', 'readnone', 'writeonly', 'nocapture', 'noalias', 'align', 'dereferenceable',
               'dereferenceable_or_null', 'signext', 'zeroext', 'sret', 'byval', 'returned', 'inreg', 'nofree', 'immarg', 'nest',
               'swiftself', 'inalloca', 'preallocated', 'byref', 'noundef'}


def skip_attrs(p, extra=()):
    while p.peek()[0] == 'word' and (p.peek()[1] in PARAM_ATTRS or p.peek()[1] in extra):
        w = p.next()[1]
        if p.peek()[1] == '(' and w in ('dereferenceable', 'dereferenceable_or_null', 'align', 'sret', 'byval', 'byref', 'inalloca', 'preallocated', 'elementtype'):
            depth = 0
            while True:
                x = p.next()[1]
                if x == '(': depth += 1
                if x == ')':
                    depth -= 1
                    if depth == 0: break
        elif w == 'align' and p.peek()[0] == 'num': p.next()

class Instr:
    __slots__ = ('op', 'dst', 'ty', 'args', 'extra', 'line')
    def __init__(s, op, dst, ty, args, extra=None, line=''):
        s.op = op; s.dst = dst; s.ty = ty; s.args = args; s.extra = extra; s.line = line
    def __repr__(s): return s.line

class Func:
    def __init__(s, name, ret, params):
        s.name = name; s.ret = ret; s.params = params; s.blocks = {}; s.order = []; s.vararg = False

class Module:
    def __init__(s):
        s.types = {}; s.globals = {}; s.funcs = {}; s.decls = {}; s.aliases = {}

FAST = {'fast', 'nnan', 'ninf', 'nsz', 'arcp', 'contract', 'afn', 'reassoc'}
CALL_SKIP = {'tail', 'musttail', 'notail', 'fastcc', 'ccc', 'coldcc', 'noundef', 'nonnull', 'signext', 'zeroext', 'noalias', 'inreg'} | FAST

def parse_module(text):
    mod = Module()
    lines = text.split('\n')
    i = 0; n = len(lines)
    while i < n:
        ln = lines[i]
        if not ln or ln[0] == ';' or ln.startswith('source_filename') or ln.startswith('target ') or ln.startswith('attributes ') or ln[0] == '!' or ln.startswith('$'):
            i += 1; continue
        if ln[0] == '%':
            m = re.match(r'(%[-a-zA-Z$._0-9"]+|%"[^"]*") = type (.*)$', ln)
            p = P(tokenize(m.group(2)), mod)
            t = p.ptype()
            if isinstance(t, StructT): t.name = m.group(1)
            mod.types[m.group(1)] = t
            i += 1; continue
        if ln[0] == '@':
            parse_global(mod, ln); i += 1; continue
        if ln.startswith('declare'):
            m = re.search(r'(@[-a-zA-Z$._0-9]+|@"[^"]*")\(', ln)
            mod.decls[m.group(1)] = ln; i += 1; continue
        if ln.startswith('define'):
            j = i + 1
            while lines[j] != '}': j += 1
            m = re.search(r'(@[-a-zA-Z$._0-9]+|@"[^"]*")\(', ln)
            mod.funcs[m.group(1)] = LazyFunc(mod, lines[i:j]); i = j + 1; continue
        raise Exception(f'toplevel? {ln[:80]}')
    return mod

LINKAGE = {'private', 'internal', 'available_externally', 'linkonce', 'weak', 'common', 'appending', 'extern_weak', 'linkonce_odr', 'weak_odr',
           'external', 'dso_local', 'dso_preemptable', 'hidden', 'protected', 'default', 'unnamed_addr', 'local_unnamed_addr', 'thread_local',
           'externally_initialized', 'comdat'}
def parse_global(mod, ln):
    toks = tokenize(ln)
    p = P(toks, mod)
    name = p.next()[1]; p.expect('=')
    while p.peek()[1] in LINKAGE:
        p.next()
        if p.peek()[1] == '(':  # thread_local(...) / comdat(...)
            while p.next()[1] != ')': pass
    kind = p.next()[1]
    if kind == 'alias':
        t = p.ptype(); p.expect(','); t2, v = p.ptyped(); mod.aliases[name] = v; return
    assert kind in ('global', 'constant'), ln[:100]
    t = p.ptype()
    init = None
    if not p.eof() and p.peek()[1] != ',':
        init = p.pvalue(t)
    mod.globals[name] = (t, init, kind == 'constant')

class LazyFunc:
    __slots__ = ('mod', 'lines')
    def __init__(s, mod, lines): s.mod = mod; s.lines = lines
    def force(s):
        return parse_func(s.mod, s.lines)

def get_func(mod, name):
    f = mod.funcs.get(name)
    if isinstance(f, LazyFunc):
        f = f.force(); mod.funcs[name] = f
    return f

def parse_func(mod, lines):
    hdr = lines[0]
    toks = tokenize(hdr)
    p = P(toks, mod)
    p.expect('define')
    skip_attrs(p, LINKAGE | CALL_SKIP)
    ret = p.ptype()
    name = p.next()[1]
    p.expect('(')
    params = []; va = False
    while not p.accept(')'):
        if p.peek()[0] == 'dots': p.next(); va = True; continue
        t = p.ptype()
        skip_attrs(p)
        pname = p.next()[1] if p.peek()[0] == 'local' else None
        params.append((t, pname)); p.accept(',')
    f = Func(name, ret, params); f.vararg = va
    # unnamed params get %0.. ; first block label is next number
    cnt = 0
    for k, (t, pn) in enumerate(params):
        if pn is None: params[k] = (t, f'%{cnt}'); cnt += 1
        elif pn[1:].isdigit(): cnt = int(pn[1:]) + 1
    cur = None
    first = True
    joined = []
    acc = None
    for ln in lines[1:]:
        if acc is not None:
            acc += ' ' + ln.strip()
            if ln.strip().startswith(']'): joined.append(acc); acc = None
            continue
        if ln.lstrip().startswith('switch ') and ln.rstrip().endswith('['):
            acc = ln; continue
        if joined and (ln.lstrip().startswith('to label') or ln.strip() == 'cleanup' or ln.lstrip().startswith('catch ') or ln.lstrip().startswith('filter ')):
            joined[-1] += ' ' + ln.strip(); continue
        joined.append(ln)
    for ln in joined:
        if not ln.strip() or ln.lstrip().startswith(';'): continue
        m = re.match(r'^([-a-zA-Z$._0-9]+|"[^"]*"):', ln)
        if m:
            cur = '%' + m.group(1); f.blocks[cur] = []; f.order.append(cur); first = False; continue
        if first:
            cur = f'%{cnt}'; f.blocks[cur] = []; f.order.append(cur); first = False
        f.blocks[cur].append(parse_instr(mod, ln))
    mod.funcs[name] = f
    return f

BINOPS = {'add', 'sub', 'mul', 'sdiv', 'udiv', 'srem', 'urem', 'and', 'or', 'xor', 'shl', 'lshr', 'ashr', 'fadd', 'fsub', 'fmul', 'fdiv', 'frem'}
CASTS = {'bitcast', 'zext', 'sext', 'trunc', 'sitofp', 'uitofp', 'fptosi', 'fptoui', 'ptrtoint', 'inttoptr', 'fpext', 'fptrunc', 'addrspacecast'}

def strip_meta(toks):
    # drop trailing ", !dbg !12" style metadata and attribute groups
    out = []
    i = 0
    while i < len(toks):
        k, v = toks[i]
        if k == 'meta':
            # remove preceding comma
            if out and out[-1][1] == ',': out.pop()
            # skip this and following meta token
            i += 1
            while i < len(toks) and toks[i][0] == 'meta': i += 1
            continue
        if k == 'attr': i += 1; continue
        out.append((k, v)); i += 1
    return out

def parse_instr(mod, ln):
    toks = strip_meta(tokenize(ln))
    p = P(toks, mod)
    dst = None
    if p.peek()[0] == 'local' and p.peek(1)[1] == '=':
        dst = p.next()[1]; p.next()
    op = p.next()[1]
    L = ln.strip()
    if op in BINOPS:
        flags = []
        while p.peek()[1] in ('nsw', 'nuw', 'exact') or p.peek()[1] in FAST: flags.append(p.next()[1])
        t = p.ptype(); a = p.pvalue(t); p.expect(','); b = p.pvalue(t)
        return Instr(op, dst, t, [a, b], tuple(flags), L)
    if op == 'fneg':
        while p.peek()[1] in FAST: p.next()
        t = p.ptype(); a = p.pvalue(t); return Instr(op, dst, t, [a], None, L)
    if op in ('icmp', 'fcmp'):
        while p.peek()[1] in FAST: p.next()
        pred = p.next()[1]; t = p.ptype(); a = p.pvalue(t); p.expect(','); b = p.pvalue(t)
        return Instr(op, dst, t, [a, b], pred, L)
    if op in CASTS:
        t = p.ptype(); a = p.pvalue(t); p.expect('to'); t2 = p.ptype()
        return Instr(op, dst, t2, [a], t, L)
    if op == 'load':
        while p.peek()[1] in ('volatile', 'atomic'): p.next()
        t = p.ptype(); p.expect(','); pt = p.ptype(); a = p.pvalue(pt)
        return Instr(op, dst, t, [a], None, L)
    if op == 'store':
        while p.peek()[1] in ('volatile', 'atomic'): p.next()
        t = p.ptype(); v = p.pvalue(t); p.expect(','); pt = p.ptype(); a = p.pvalue(pt)
        return Instr(op, dst, t, [v, a], None, L)
    if op == 'alloca':
        p.accept('inalloca')
        t = p.ptype(); cnt = ('const', 1)
        if p.accept(','):
            if p.peek()[1] != 'align':
                t2 = p.ptype(); cnt = p.pvalue(t2)
        return Instr(op, dst, t, [cnt], None, L)
    if op == 'getelementptr':
        p.accept('inbounds')
        bt = p.ptype(); p.expect(',')
        ops = []
        while True:
            t2 = p.ptype(); ops.append((t2, p.pvalue(t2)))
            if not p.accept(','): break
        return Instr(op, dst, bt, ops, None, L)
    if op == 'select':
        while p.peek()[1] in FAST: p.next()
        tc = p.ptype(); c = p.pvalue(tc); p.expect(','); t = p.ptype(); a = p.pvalue(t); p.expect(','); t2 = p.ptype(); b = p.pvalue(t2)
        return Instr(op, dst, t, [c, a, b], None, L)
    if op == 'phi':
        while p.peek()[1] in FAST: p.next()
        t = p.ptype(); inc = []
        while True:
            p.expect('['); v = p.pvalue(t); p.expect(','); lbl = p.next()[1]; p.expect(']')
            inc.append((v, lbl))
            if not p.accept(','): break
        return Instr(op, dst, t, inc, None, L)
    if op == 'br':
        if p.peek()[1] == 'label':
            p.next(); return Instr('br', None, None, [], [p.next()[1]], L)
        t = p.ptype(); c = p.pvalue(t); p.expect(','); p.expect('label'); a = p.next()[1]; p.expect(','); p.expect('label'); b = p.next()[1]
        return Instr('condbr', None, None, [c], [a, b], L)
    if op == 'switch':
        t = p.ptype(); v = p.pvalue(t); p.expect(','); p.expect('label'); d = p.next()[1]; p.expect('[')
        cases = []
        while not p.accept(']'):
            t2 = p.ptype(); cv = p.pvalue(t2); p.expect(','); p.expect('label'); cases.append((cv[1], p.next()[1]))
        return Instr('switch', None, t, [v], (d, cases), L)
    if op == 'ret':
        t = p.ptype()
        if isinstance(t, VoidT): return Instr('ret', None, t, [], None, L)
        return Instr('ret', None, t, [p.pvalue(t)], None, L)
    if op in ('call', 'invoke') or (op in ('tail', 'musttail', 'notail') and p.peek()[1] == 'call'):
        if op in ('tail', 'musttail', 'notail'): p.next(); op = 'call'
        skip_attrs(p, CALL_SKIP)
        rt = p.ptype()
        if isinstance(rt, FuncT): rt = rt.ret
        elif isinstance(rt, PtrT) and isinstance(rt.to, FuncT) and p.peek()[1] != '(' and False: pass
        callee = p.next()
        if callee[0] == 'word' and callee[1] in ('bitcast', 'addrspacecast'):
            p.expect('('); t2 = p.ptype(); inner = p.next(); p.expect('to'); t3 = p.ptype(); p.expect(')')
            callee = inner
        callee = ('global', callee[1]) if callee[0] == 'glob' else ('local', callee[1])
        p.expect('(')
        args = []
        while not p.accept(')'):
            t2, v = p.ptyped(); args.append((t2, v)); p.accept(',')
        extra = None
        if op == 'invoke':
            while p.peek()[1] != 'to': p.next()
            p.expect('to'); p.expect('label'); ok = p.next()[1]; p.expect('unwind'); p.expect('label'); uw = p.next()[1]
            extra = (ok, uw)
        return Instr(op, dst, rt, [callee] + args, extra, L)
    if op == 'extractvalue':
        t = p.ptype(); a = p.pvalue(t); idx = []
        while p.accept(','): idx.append(int(p.next()[1]))
        return Instr(op, dst, t, [a], idx, L)
    if op == 'insertvalue':
        t = p.ptype(); a = p.pvalue(t); p.expect(','); t2 = p.ptype(); b = p.pvalue(t2); idx = []
        while p.accept(','): idx.append(int(p.next()[1]))
        return Instr(op, dst, t, [a, b], (idx, t2), L)
    if op in ('unreachable',): return Instr(op, None, None, [], None, L)
    if op == 'landingpad': return Instr(op, dst, None, [], None, L)
    if op == 'resume': return Instr(op, None, None, [], None, L)
    if op == 'freeze':
        t = p.ptype(); a = p.pvalue(t); return Instr('freeze', dst, t, [a], None, L)
    if op in ('cmpxchg', 'atomicrmw', 'fence', 'va_arg', 'indirectbr', 'callbr', 'cleanupret', 'catchret', 'catchswitch', 'catchpad', 'cleanuppad', 'shufflevector', 'extractelement', 'insertelement'):
        return Instr('unsupported:' + op, dst, None, [], None, L)
    raise Exception(f'instr? {op}: {L[:120]}')

_orig_parse_instr = parse_instr
def parse_instr(mod, ln):
    try:
        return _orig_parse_instr(mod, ln)
    except Exception as e:
        raise Exception(f'{e} IN LINE: {ln[:300]}')

if __name__ == '__main__':
    m = parse_module(open(sys.argv[1]).read())
    print(len(m.funcs), 'funcs', len(m.globals), 'globals', len(m.types), 'types')
