# Models of symbols that have no IR (DESIGN.md section 3.3).  Every model is part of the claim.
import math
from fractions import Fraction
from .interp import *
from .terms import *


def sg32(x):
    return x - (1 << 32) if isinstance(x, int) and x >> 31 else x


# ---------------------------------------------------------------- allocation, assertions, exceptions
def x_new(m, n, *a):
    return m.alloc(n, 'heap', m.stack[-1] if m.stack else '')


def x_delete(m, p, *a):
    if isinstance(p, Ptr) and p.obj != 0:
        o = m.objs[p.obj]
        if o.freed:
            raise SafetyEvent('double-free', f'object {p.obj} ({o.name})')
        if o.kind != 'heap':
            raise SafetyEvent('bad-free', f'delete of non-heap object {p.obj} ({o.kind} {o.name})')
        if p.off != 0:
            raise SafetyEvent('bad-free', f'delete of interior pointer into object {p.obj}')
        o.freed = True


def x_assert_fail(m, expr, file, line, fn):
    raise SafetyEvent('assert', f'{m.cstr(expr)} at {m.cstr(file)}:{line}')


def x_noop(m, *a):
    return 0


def x_ret0(m, *a):
    return a[0] if a else 0


def x_throw(m, obj, tinfo, dtor):
    name = ''
    for k, v in m.gaddr.items():
        if v == tinfo:
            name = k
    raise PathEnd('threw', name)


def x_exit(m, c):
    raise PathEnd('exit', str(c))


def x_abort(m):
    raise SafetyEvent('abort', 'abort() called')


# ---------------------------------------------------------------- memory intrinsics
def x_memcpy(m, d, sp, n, *a):
    m.memcpy(d, sp, n)
    return d


def x_memmove(m, d, sp, n, *a):
    if n == 0:
        return d
    if isinstance(d, Ptr) and isinstance(sp, Ptr) and d.obj == sp.obj and abs(d.off - sp.off) < n:
        # overlapping: copy through a temporary
        tmp = m.alloc(n, 'heap', 'memmove-tmp')
        m.memcpy(tmp, sp, n)
        m.memcpy(d, tmp, n)
        m.objs[tmp.obj].freed = True
        return d
    m.memcpy(d, sp, n)
    return d


def x_memset(m, d, v, n, *a):
    m.memset(d, v & 255, n)
    return d


def x_memcmp(m, a, b, n):
    for i in range(n):
        x = m.load(Ptr(a.obj, a.off + i), 1, IntT(8))
        y = m.load(Ptr(b.obj, b.off + i), 1, IntT(8))
        if x != y:
            return (x - y) & 0xffffffff
    return 0


def x_strlen(m, p):
    return len(m.cstr(p))


# ---------------------------------------------------------------- harness API
def x_vsym(m, fam, i, j):
    name = f'{m.cstr(fam)}_{sg32(i)}_{sg32(j)}'
    if m.mode == 'float':
        return m.inputs(name, 'real')
    t = sym(name, 'R')
    m.syms[name] = t
    return t


def x_vsym_pos(m, fam, i, j):
    if m.mode == 'float':
        return m.inputs(f'{m.cstr(fam)}_{sg32(i)}_{sg32(j)}', 'pos')
    t = x_vsym(m, fam, i, j)
    m.assume(mk_cmp('gt', t, Fraction(0)))
    return t


def x_vsym_int(m, nm, lo, hi):
    name = m.cstr(nm)
    lo, hi = sg32(lo), sg32(hi)
    if m.mode == 'float' or m.int_inputs is not None:
        return m.int_inputs(name, lo, hi) & 0xffffffff
    t = sym(name, 'I')
    m.syms[name] = t
    m.assume(mk_cmp('le', lo, t))
    m.assume(mk_cmp('le', t, hi))
    return t


def x_vchoice(m, nm, n):
    """concrete choice in [0,n): forks the path (history exploration)"""
    name = m.cstr(nm)
    if m.int_inputs is not None:
        return m.int_inputs(name, 0, n - 1) & 0xffffffff
    return m.choose(n, name)


def _boolarg(c):
    if isinstance(c, Term):
        if c.sort == 'I':
            return mk_cmp('ne', c, 0)
        return c
    return bool(c)


def x_vassume(m, c):
    if c is UNDEF:
        raise SafetyEvent('uninit', 'assumption on an uninitialised value')
    m.assume(_boolarg(c))


def x_vassume_pos(m, x):
    if m.mode == 'float':
        return
    m.assume(mk_cmp('gt', x, Fraction(0)))


def x_vassume_nonneg(m, x):
    if m.mode == 'float':
        return
    m.assume(mk_cmp('ge', x, Fraction(0)))


def x_vassume_ne(m, a, b):
    if m.mode == 'float':
        return
    m.assume(mk_cmp('ne', a, b))


def x_vassume_eq(m, a, b):
    if m.mode == 'float':
        return
    m.assume(mk_cmp('eq', a, b))


def x_vassume_le(m, a, b):
    if m.mode == 'float':
        return
    m.assume(mk_cmp('le', a, b))


def x_vassume_lt(m, a, b):
    if m.mode == 'float':
        return
    m.assume(mk_cmp('lt', a, b))


def _ob(m, kind, a, b, tag, k, extra=None):
    if a is UNDEF or b is UNDEF:
        raise SafetyEvent('uninit', f'observed value is uninitialised ({m.cstr(tag)}[{sg32(k)}])')
    if isinstance(a, Bits):
        a = a.v
    if isinstance(b, Bits):
        b = b.v
    m.obligations.append(dict(kind=kind, a=a, b=b, tag=m.cstr(tag), k=sg32(k), nass=len(m.assumptions), ndiv=len(m.divisors),
                              extra=extra))


def x_vcheck_eq(m, a, b, tag, k):
    _ob(m, 'eq', a, b, tag, k)


def x_vcheck_le(m, a, b, tag, k):
    _ob(m, 'le', a, b, tag, k)


def x_vcheck_lt(m, a, b, tag, k):
    _ob(m, 'lt', a, b, tag, k)


def x_vcheck_bits_eq(m, a, b, tag, k):
    _ob(m, 'bits', a, b, tag, k)


def x_vcheck_true(m, c, tag, k):
    if c is UNDEF:
        raise SafetyEvent('uninit', f'observed condition is uninitialised ({m.cstr(tag)})')
    _ob(m, 'true', _boolarg(c), True, tag, k)


def x_vcheck_indep(m, a, fam, tag, k):
    _ob(m, 'indep', a, a, tag, k, extra=m.cstr(fam))


def x_vcheck_sat(m, c, tag, k):
    """witness obligation: the condition must be satisfiable on this path (vacuity guard)"""
    _ob(m, 'witness', _boolarg(c), True, tag, k)


def x_vcheck_deriv(m, f, df, var, tag, k, fd_estimate):
    """obligation: df equals the formal derivative of f w.r.t. var ('r' or 'theta'; theta through sin_theta, cos_theta)"""
    if m.mode == 'float':
        _ob(m, 'eq', df, fd_estimate, tag, k)      # same observation as the native runtime: (df, finite-difference estimate)
        return
    v = m.cstr(var)
    s_, c_ = sym('s_0_0', 'R'), sym('c_0_0', 'R')
    wrt = {'r_0_0': Fraction(1)} if v == 'r' else {'theta_0_0': Fraction(1), 's_0_0': c_, 'c_0_0': mk('neg', s_)}
    from .terms import diff
    D = diff(f, wrt)
    _trig_axioms(m, (D, df))
    _ob(m, 'eq', df, D, tag, k)


def _theta_multiple(arg):
    """k if arg is k * theta_0_0 for an integer 1 <= k <= 4, else None"""
    if isinstance(arg, Term) and arg.op == 'sym' and arg.args[0] == 'theta_0_0':
        return 1
    if isinstance(arg, Term) and arg.op == 'mul' and len(arg.args) == 2:
        x, y = arg.args
        if isinstance(y, Term) and not isinstance(x, Term):
            x, y = y, x
        if isinstance(x, Term) and x.op == 'sym' and x.args[0] == 'theta_0_0' and not isinstance(y, Term):
            f = Fraction(y)
            if f.denominator == 1 and 1 <= f.numerator <= 4:
                return int(f.numerator)
    return None


def _trig_axioms(m, roots):
    """sin^2 + cos^2 = 1 for every sin/cos application that occurs; multiple-angle formulas tie sin(k theta), cos(k theta)
    (k <= 4: the shipped source terms were simplified by a CAS to double angles) to the symbols s = sin(theta), c = cos(theta)"""
    s_, c_ = sym('s_0_0', 'R'), sym('c_0_0', 'R')
    for t in reachable([x for x in roots if isinstance(x, Term)]):
        if t.op == 'uf' and t.args[0] in ('sin', 'cos'):
            key = ('trig', t.args[1].id if isinstance(t.args[1], Term) else t.args[1])
            if key in m.known_sqrt:
                continue
            m.known_sqrt.add(key)
            sa, ca = Term('uf', ('sin', t.args[1])), Term('uf', ('cos', t.args[1]))
            m.assume(mk_cmp('eq', mk('add', mk('mul', sa, sa), mk('mul', ca, ca)), Fraction(1)))
            k = _theta_multiple(t.args[1])
            if k is not None:
                # (c + i s)^k by repeated multiplication
                re, im = c_, s_
                for _ in range(k - 1):
                    re, im = mk('sub', mk('mul', re, c_), mk('mul', im, s_)), mk('add', mk('mul', re, s_), mk('mul', im, c_))
                m.assume(mk_cmp('eq', ca, re))
                m.assume(mk_cmp('eq', sa, im))


def _wrt(m, v):
    s_, c_ = sym('s_0_0', 'R'), sym('c_0_0', 'R')
    return {'r_0_0': Fraction(1)} if v == 'r' else {'theta_0_0': Fraction(1), 's_0_0': c_, 'c_0_0': mk('neg', s_)}


def x_vdiff(m, f, var):
    """formal partial derivative of a term (engine only; the native runtime returns 0 and never uses it)"""
    if m.mode == 'float':
        return 0.0
    from .terms import diff
    return diff(f, _wrt(m, m.cstr(var)))


def x_vcheck_eq_fd(m, a, b, tag, k, fd):
    """engine: a = b (a built with vdiff); native: b against the finite-difference value fd computed by the harness"""
    if m.mode == 'float':
        _ob(m, 'eq', b, fd, tag, k)
        return
    _trig_axioms(m, (a, b))
    _ob(m, 'eq', a, b, tag, k)


def x_vreach(m, tag):
    m.reached.add(m.cstr(tag))


def x_vout(m, a, tag, k):
    if a is UNDEF:
        raise SafetyEvent('uninit', f'observed value is uninitialised ({m.cstr(tag)}[{sg32(k)}])')
    if isinstance(a, Bits):
        a = a.v
    m.outs.append((m.cstr(tag), sg32(k), a))


def x_vout_int(m, a, tag, k):
    if a is UNDEF:
        raise SafetyEvent('uninit', f'observed value is uninitialised ({m.cstr(tag)}[{sg32(k)}])')
    m.outs.append((m.cstr(tag), sg32(k), sg32(a) if isinstance(a, int) else a))


def x_vpi(m):
    """harness/vpi.h: M_PI as an opaque positive constant (the identities checked with it are formal: they must hold for any value)"""
    import math
    if m.mode == 'float':
        return math.pi
    t = sym('pi', 'R')
    if 'pi' not in m.syms:
        m.syms['pi'] = t
        m.assume(mk_cmp('gt', t, Fraction(3)))
        m.assume(mk_cmp('lt', t, Fraction(4)))
    return t


def x_vis_symbolic(m):
    return 0 if m.mode == 'float' else 1


def x_vset_threads(m, n):
    m.nthreads = sg32(n)


def x_vfresh_like(m, a, fam, i):
    """a fresh real symbol (used by stubs that havoc a value)"""
    return x_vsym(m, fam, i, 0)


# ---------------------------------------------------------------- libm
SMALL_DEN_ANGLE = 8
SMALL_DEN = 64


def libm(name, fn):
    def h(m, *a):
        if any(x is UNDEF for x in a):
            return UNDEF
        a = [x.v if isinstance(x, Bits) else x for x in a]
        if m.mode == 'float':
            try:
                return fn(*a)
            except (ValueError, OverflowError):
                return math.nan
        if all(is_const(x) for x in a):
            if name == 'pow':
                e = Fraction(a[1])
                if e.denominator == 1 and abs(e.numerator) <= 64:
                    base = Fraction(a[0])
                    if e.numerator >= 0:
                        return base ** e.numerator
                    if base != 0:
                        return 1 / (base ** (-e.numerator))
            if name == 'sqrt':
                f = Fraction(a[0])
                rn, rd = math.isqrt(f.numerator) if f.numerator >= 0 else -1, math.isqrt(f.denominator)
                if rn >= 0 and rn * rn == f.numerator and rd * rd == f.denominator:
                    return Fraction(rn, rd)
            try:
                v = fn(*[float(x) for x in a])
            except (ValueError, OverflowError):
                raise SafetyEvent('domain', f'{name}{tuple(float(x) for x in a)} is outside the function domain')
            if m.libm_small:
                if name in ('sin', 'cos'):
                    th = float(a[0])
                    if abs(math.cos(th / 2)) < 1e-9:
                        r = Fraction(0) if name == 'sin' else Fraction(-1)
                    else:
                        t = Fraction(math.tan(th / 2)).limit_denominator(SMALL_DEN_ANGLE)
                        r = (2 * t / (1 + t * t)) if name == 'sin' else ((1 - t * t) / (1 + t * t))
                else:
                    r = Fraction(v).limit_denominator(SMALL_DEN)
                    if v > 0 and r <= 0:
                        r = Fraction(1, SMALL_DEN)
                m.libm_log[(name,) + tuple(a)] = r
                return r
            return Fraction(v)
        # symbolic argument
        if name == 'exp':
            t = Term('uf', ('exp', a[0]))
            if ('exp', t.id) not in m.known_sqrt:
                m.known_sqrt.add(('exp', t.id))
                m.assume(mk_cmp('gt', t, Fraction(0)))                         # exp > 0
                nx = mk('neg', a[0]) if isinstance(a[0], Term) else None
                other = Term._tab.get(('uf', ('exp', nx), 'R')) if nx is not None else None
                if other is not None:
                    m.assume(mk_cmp('eq', mk('mul', t, other), Fraction(1)))       # exp(x) exp(-x) = 1
            return t
        if name == 'pow' and is_const(a[1]):
            e = Fraction(a[1])
            if e.denominator == 1 and -16 <= e.numerator < 0:
                r = Fraction(1)
                for _ in range(-e.numerator):
                    r = mk('mul', r, a[0])
                m.divisors.append(r)
                return mk('div', Fraction(1), r)
            if e.denominator == 1 and 0 <= e.numerator <= 16:
                r = Fraction(1)
                for _ in range(e.numerator):
                    r = mk('mul', r, a[0])
                return r
            if e.denominator == 2 and 0 < e.numerator <= 9:
                rt = _sqrt_term(m, a[0])
                r = Fraction(1)
                for _ in range(e.numerator):
                    r = mk('mul', r, rt)
                return r
        if name == 'sqrt':
            return _sqrt_term(m, a[0])
        return Term('uf', (name,) + tuple(a))
    return h


def _sqrt_term(m, x):
    t = Term('uf', ('sqrt', x))
    if t.id not in m.known_sqrt:
        m.known_sqrt.add(t.id)
        # axioms: t >= 0 and t*t = x   (x >= 0 is the function's domain: recorded as an assumption)
        m.assume(mk_cmp('ge', t, Fraction(0)))
        m.assume(mk_cmp('eq', mk('mul', t, t), x))
    return t


def x_fabs(m, a):
    if a is UNDEF:
        return UNDEF
    if isinstance(a, Term):
        return mk_ite(mk_cmp('ge', a, Fraction(0)), a, mk('neg', a), 'R')
    return abs(a)


def x_fmuladd(m, a, b, c):
    if m.mode == 'float':
        return a * b + c
    return mk('add', mk('mul', a, b), c)


def x_floor(m, x):
    if x is UNDEF:
        return UNDEF
    if m.mode == 'float':
        return float(math.floor(x)) if math.isfinite(x) else x
    if isinstance(x, Term):
        ti = Term('to_int', (x,), 'I')
        if m.concretize:
            return Fraction(m.concretize_int(ti))
        return Term('to_real', (ti,), 'R')
    return Fraction(math.floor(x))


def x_ceil(m, x):
    if x is UNDEF:
        return UNDEF
    if m.mode == 'float':
        return float(math.ceil(x)) if math.isfinite(x) else x
    if isinstance(x, Term):
        ti = Term('to_int', (mk('neg', x),), 'I')
        if m.concretize:
            return Fraction(-m.concretize_int(ti))
        return mk('neg', Term('to_real', (ti,), 'R'))
    return Fraction(math.ceil(x))


def x_minmax(kind):
    def h(m, a, b):
        if a is UNDEF or b is UNDEF:
            return UNDEF
        if isinstance(a, Term) or isinstance(b, Term):
            c = mk_cmp('le', a, b)
            return mk_ite(c, a, b, 'R') if kind == 'min' else mk_ite(c, b, a, 'R')
        return min(a, b) if kind == 'min' else max(a, b)
    return h


def x_ldexp(m, x, e):
    e = sg32(e)
    if m.mode == 'float':
        return math.ldexp(x, e)
    return mk('mul', x, Fraction(2) ** e)


def imm(bits, signed, kind):
    def h(m, a, b):
        if a is UNDEF or b is UNDEF:
            return UNDEF
        if isinstance(a, Term) or isinstance(b, Term):
            a2, b2 = m.sint(a, bits), m.sint(b, bits)
            if not signed:
                a2, b2 = i_unsigned(a2, bits), i_unsigned(b2, bits)
            c = mk_cmp('le', a2, b2)
            return mk_ite(c, a, b, 'I') if kind == 'min' else mk_ite(c, b, a, 'I')
        sa, sb = a, b
        if signed:
            sa = a - (1 << bits) if a >> (bits - 1) else a
            sb = b - (1 << bits) if b >> (bits - 1) else b
        if kind == 'min':
            return a if sa <= sb else b
        return a if sa >= sb else b
    return h


def x_umul_ov(m, a, b):
    r = a * b
    return [r & (2 ** 64 - 1), int(r >= 2 ** 64)]


def x_div(m, a, b):
    if isinstance(a, Term) or isinstance(b, Term):
        raise EngineError('std::div on symbolic integers (struct return packs two ints)')
    x, y = sg32(a), sg32(b)
    if y == 0:
        raise SafetyEvent('div-by-zero', 'std::div by zero')
    q = abs(x) // abs(y)
    q = -q if (x < 0) != (y < 0) else q
    r = x - q * y
    return (q & 0xffffffff) | ((r & 0xffffffff) << 32)


def x_abs_i(bits):
    def h(m, a, *r):
        if isinstance(a, Term):
            return mk_ite(mk_cmp('ge', a, 0), a, imk('sub', 0, a), 'I')
        s = a - (1 << bits) if a >> (bits - 1) else a
        return abs(s) & ((1 << bits) - 1)
    return h


# ---------------------------------------------------------------- libstdc++ pieces without IR
def _next_prime(n):
    def isp(k):
        if k < 2:
            return False
        i = 2
        while i * i <= k:
            if k % i == 0:
                return False
            i += 1
        return True
    while not isp(n):
        n += 1
    return n


# libstdc++ (GCC 12) _Prime_rehash_policy with max_load_factor 1.0: same bucket counts as the real library, so that the
# iteration order of std::unordered_map -- and with it the floating-point summation order -- matches the native build
# (checked by the per-run differential).  rehash_bias != 0 selects a different, equally conforming growth policy.
_PRIMES = [2, 3, 5, 7, 11, 13, 17, 19, 23, 29, 31, 37, 41, 43, 47, 53, 59, 61, 67, 71, 73, 79, 83, 89, 97, 103, 109, 113, 127, 137, 139,
           149, 157, 167, 179, 193, 199, 211, 227, 241, 257, 277, 293, 313, 337, 359, 383, 409, 439, 467, 503, 541, 577, 619, 661, 709,
           761, 823, 887, 953, 1031, 1109, 1193, 1289, 1381, 1493, 1613, 1741, 1879, 2029, 2179, 2357, 2549, 2753, 2971, 3209, 3469,
           3739, 4027, 4349, 4703, 5087, 5503, 5953, 6427, 6949, 7517, 8123, 8783, 9497, 10273, 11113, 12011, 12983, 14033, 15173,
           16411]
_FAST = [2, 2, 2, 3, 5, 5, 7, 7, 11, 11, 11, 11, 13, 13]


def _next_bkt_real(m, this, n):
    if n < len(_FAST):
        if n == 0:
            return 1
        m.store(Ptr(this.obj, this.off + 8), _FAST[n], 8)
        return _FAST[n]
    nb = None
    for p in _PRIMES[6:]:
        if p >= n:
            nb = p
            break
    if nb is None:
        nb = _next_prime(n)
    m.store(Ptr(this.obj, this.off + 8), nb, 8)
    return nb


def x_need_rehash(m, this, n_bkt, n_elt, n_ins):
    nxt = m.load(Ptr(this.obj, this.off + 8), 8, IntT(64))
    if m.rehash_bias:
        if n_elt + n_ins > nxt:
            min_bkts = n_elt + n_ins
            if min_bkts >= n_bkt:
                nb = _next_prime(max(min_bkts + 1, n_bkt * 2) + m.rehash_bias)
                m.store(Ptr(this.obj, this.off + 8), nb, 8)
                return [1, nb]
            m.store(Ptr(this.obj, this.off + 8), n_bkt, 8)
        return [0, 0]
    if n_elt + n_ins > nxt:
        min_bkts = max(n_elt + n_ins, 0 if nxt else 11)
        if min_bkts >= n_bkt:
            return [1, _next_bkt_real(m, this, max(min_bkts + 1, n_bkt * 2))]
        m.store(Ptr(this.obj, this.off + 8), n_bkt, 8)
    return [0, 0]


def x_next_bkt(m, this, n):
    if m.rehash_bias:
        nb = _next_prime(max(n, 2) + m.rehash_bias)
        m.store(Ptr(this.obj, this.off + 8), nb, 8)
        return nb
    return _next_bkt_real(m, this, n)


# std::_Rb_tree_* : unbalanced BST with the same node layout {color:i32, parent*, left*, right*}
def _rb(m, p, off):
    return m.load(Ptr(p.obj, p.off + off), 8, PtrT(IntT(8)))


def _rbset(m, p, off, v):
    m.store(Ptr(p.obj, p.off + off), v, 8)


def x_rb_insert(m, insert_left, x, p, header):
    _rbset(m, x, 8, p)
    _rbset(m, x, 16, NULL)
    _rbset(m, x, 24, NULL)
    m.store(x, 0, 4)
    if isinstance(insert_left, Term):
        insert_left = 1 if m.decide(_boolarg(insert_left)) else 0
    if insert_left & 1:
        _rbset(m, p, 16, x)
        if p == header:
            _rbset(m, header, 8, x)
            _rbset(m, header, 24, x)
        elif p == _rb(m, header, 16):
            _rbset(m, header, 16, x)
    else:
        _rbset(m, p, 24, x)
        if p == _rb(m, header, 24):
            _rbset(m, header, 24, x)


def x_rb_increment(m, x):
    r = _rb(m, x, 24)
    if r != NULL:
        x = r
        while _rb(m, x, 16) != NULL:
            x = _rb(m, x, 16)
        return x
    y = _rb(m, x, 8)
    while x == _rb(m, y, 24):
        x = y
        y = _rb(m, y, 8)
    if _rb(m, x, 24) != y:
        x = y
    return x


def x_rb_decrement(m, x):
    # header: parent's parent is itself and (color red) -- we use: left(header)=leftmost, right(header)=rightmost
    par = _rb(m, x, 8)
    if par != NULL and _rb(m, par, 8) == x and m.load(x, 4, IntT(32)) == 0 and _is_header(m, x):
        return _rb(m, x, 24)
    l = _rb(m, x, 16)
    if l != NULL:
        y = l
        while _rb(m, y, 24) != NULL:
            y = _rb(m, y, 24)
        return y
    y = _rb(m, x, 8)
    while x == _rb(m, y, 16):
        x = y
        y = _rb(m, y, 8)
    return y


def x_rb_erase(m, z, header):
    """unbalanced-BST version of std::_Rb_tree_rebalance_for_erase: unlink z, keep header.{parent,left,right} = root,
    leftmost, rightmost; returns the node the caller destroys (z)"""
    def replace(u, v):
        up = _rb(m, u, 8)
        if _rb(m, header, 8) == u:
            _rbset(m, header, 8, v)
        elif _rb(m, up, 16) == u:
            _rbset(m, up, 16, v)
        else:
            _rbset(m, up, 24, v)
        if v != NULL:
            _rbset(m, v, 8, up if _rb(m, header, 8) != v else header)
    zl, zr = _rb(m, z, 16), _rb(m, z, 24)
    if zl == NULL:
        replace(z, zr)
    elif zr == NULL:
        replace(z, zl)
    else:
        y = zr
        while _rb(m, y, 16) != NULL:
            y = _rb(m, y, 16)
        if _rb(m, y, 8) != z:
            replace(y, _rb(m, y, 24))
            _rbset(m, y, 24, _rb(m, z, 24))
            _rbset(m, _rb(m, y, 24), 8, y)
        replace(z, y)
        _rbset(m, y, 16, _rb(m, z, 16))
        _rbset(m, _rb(m, y, 16), 8, y)
    root = _rb(m, header, 8)
    if root == NULL:
        _rbset(m, header, 16, header)
        _rbset(m, header, 24, header)
    else:
        _rbset(m, root, 8, header)
        x = root
        while _rb(m, x, 16) != NULL:
            x = _rb(m, x, 16)
        _rbset(m, header, 16, x)
        x = root
        while _rb(m, x, 24) != NULL:
            x = _rb(m, x, 24)
        _rbset(m, header, 24, x)
    return z


def _is_header(m, x):
    return getattr(m, 'rb_headers', None) is not None and x in m.rb_headers


# ---------------------------------------------------------------- OpenMP (no-OpenMP build: only the runtime API)
def x_omp_get_max_threads(m):
    return m.nthreads


def x_omp_set_num_threads(m, n):
    m.nthreads = n if isinstance(n, Term) else sg32(n)


def x_omp_get_thread_num(m):
    return getattr(m, 'cur_thread', 0)


def x_omp_get_num_threads(m):
    return getattr(m, 'team_size', 1)


def base_ext():
    E = {
        '@_Znwm': x_new, '@_Znam': x_new, '@_ZdlPv': x_delete, '@_ZdaPv': x_delete, '@_ZdlPvm': x_delete, '@_ZdaPvm': x_delete,
        '@_ZnwmSt11align_val_t': x_new, '@_ZdlPvSt11align_val_t': x_delete, '@_ZdlPvmSt11align_val_t': x_delete,
        '@malloc': x_new, '@free': x_delete,
        '@__assert_fail': x_assert_fail, '@__cxa_atexit': x_noop, '@_ZNSt8ios_base4InitC1Ev': x_noop,
        '@llvm.memcpy.p0i8.p0i8.i64': x_memcpy, '@llvm.memmove.p0i8.p0i8.i64': x_memmove, '@llvm.memset.p0i8.i64': x_memset,
        '@memcmp': x_memcmp, '@bcmp': x_memcmp, '@strlen': x_strlen, '@memcpy': x_memcpy, '@memmove': x_memmove, '@memset': x_memset,
        '@vsym': x_vsym, '@vsym_pos': x_vsym_pos, '@vsym_int': x_vsym_int, '@vchoice': x_vchoice, '@vassume': x_vassume, '@vassume_pos': x_vassume_pos,
        '@vassume_nonneg': x_vassume_nonneg, '@vassume_ne': x_vassume_ne, '@vassume_eq': x_vassume_eq,
        '@vassume_le': x_vassume_le, '@vassume_lt': x_vassume_lt,
        '@vcheck_eq': x_vcheck_eq, '@vcheck_le': x_vcheck_le, '@vcheck_lt': x_vcheck_lt, '@vcheck_bits_eq': x_vcheck_bits_eq,
        '@vcheck_true': x_vcheck_true, '@vcheck_indep': x_vcheck_indep, '@vcheck_sat': x_vcheck_sat,
        '@vreach': x_vreach, '@vrace_begin': x_noop, '@vcheck_deriv': x_vcheck_deriv, '@vdiff': x_vdiff, '@vcheck_eq_fd': x_vcheck_eq_fd, '@vout': x_vout, '@vout_int': x_vout_int, '@vis_symbolic': x_vis_symbolic, '@vpi': x_vpi, '@vset_threads': x_vset_threads,
        '@llvm.fabs.f64': x_fabs, '@fabs': x_fabs, '@llvm.fmuladd.f64': x_fmuladd,
        '@llvm.floor.f64': x_floor, '@floor': x_floor, '@llvm.ceil.f64': x_ceil, '@ceil': x_ceil,
        '@llvm.minnum.f64': x_minmax('min'), '@llvm.maxnum.f64': x_minmax('max'), '@fmin': x_minmax('min'), '@fmax': x_minmax('max'),
        '@ldexp': x_ldexp,
        '@llvm.umul.with.overflow.i64': x_umul_ov, '@__cxa_throw': x_throw, '@__cxa_allocate_exception': x_new,
        '@__cxa_free_exception': x_noop, '@exit': x_exit, '@abort': x_abort, '@_ZSt9terminatev': x_abort,
        '@omp_get_max_threads': x_omp_get_max_threads, '@omp_set_num_threads': x_omp_set_num_threads,
        '@omp_get_thread_num': x_omp_get_thread_num, '@omp_get_num_threads': x_omp_get_num_threads,
        '@omp_get_wtime': lambda m: (0.0 if m.mode == 'float' else Fraction(0)),
        '@llvm.smax.i32': imm(32, True, 'max'), '@llvm.smin.i32': imm(32, True, 'min'),
        '@llvm.umax.i32': imm(32, False, 'max'), '@llvm.umin.i32': imm(32, False, 'min'),
        '@llvm.smax.i64': imm(64, True, 'max'), '@llvm.smin.i64': imm(64, True, 'min'),
        '@llvm.umax.i64': imm(64, False, 'max'), '@llvm.umin.i64': imm(64, False, 'min'),
        '@llvm.usub.sat.i64': lambda m, a, b: max(a - b, 0), '@llvm.usub.sat.i32': lambda m, a, b: max(a - b, 0),
        '@llvm.uadd.sat.i64': lambda m, a, b: min(a + b, 2 ** 64 - 1), '@llvm.uadd.sat.i32': lambda m, a, b: min(a + b, 2 ** 32 - 1),
        '@llvm.abs.i32': x_abs_i(32), '@llvm.abs.i64': x_abs_i(64),
        '@div': x_div,
        '@llvm.assume': x_noop, '@llvm.trap': x_abort,
        '@_ZNSt13runtime_errorC1EPKc': x_noop, '@_ZNSt16invalid_argumentC1EPKc': x_noop, '@_ZNSt12out_of_rangeC1EPKc': x_noop,
        '@_ZNSt11logic_errorC1EPKc': x_noop, '@_ZNSt12length_errorC1EPKc': x_noop,
        '@_ZSt20__throw_length_errorPKc': lambda m, s_: (_ for _ in ()).throw(PathEnd('threw', 'std::length_error')),
        '@_ZSt17__throw_bad_allocv': lambda m: (_ for _ in ()).throw(PathEnd('threw', 'std::bad_alloc')),
        '@_ZSt28__throw_bad_array_new_lengthv': lambda m: (_ for _ in ()).throw(PathEnd('threw', 'std::bad_array_new_length')),
        '@_ZSt25__throw_bad_function_callv': lambda m: (_ for _ in ()).throw(SafetyEvent('badcall', 'empty std::function called')),
        '@_ZSt27__throw_bad_optional_accessv': lambda m: (_ for _ in ()).throw(PathEnd('threw', 'std::bad_optional_access')),
        '@_ZSt24__throw_out_of_range_fmtPKcz': lambda m, *a: (_ for _ in ()).throw(PathEnd('threw', 'std::out_of_range')),
        '@_ZSt19__throw_logic_errorPKc': lambda m, *a: (_ for _ in ()).throw(PathEnd('threw', 'std::logic_error')),
        '@llvm.ctpop.i32': lambda m, a: bin(a).count('1'),
        '@llvm.ctlz.i32': lambda m, a, z: 32 - a.bit_length(), '@llvm.ctlz.i64': lambda m, a, z: 64 - a.bit_length(),
        '@llvm.cttz.i32': lambda m, a, z: (a & -a).bit_length() - 1 if a else 32,
        '@llvm.cttz.i64': lambda m, a, z: (a & -a).bit_length() - 1 if a else 64,
        '@_ZNKSt8__detail20_Prime_rehash_policy14_M_need_rehashEmmm': x_need_rehash,
        '@_ZNKSt8__detail20_Prime_rehash_policy11_M_next_bktEm': x_next_bkt,
        '@_ZSt29_Rb_tree_insert_and_rebalancebPSt18_Rb_tree_node_baseS0_RS_': x_rb_insert,
        '@_ZSt18_Rb_tree_incrementPSt18_Rb_tree_node_base': x_rb_increment,
        '@_ZSt18_Rb_tree_incrementPKSt18_Rb_tree_node_base': x_rb_increment,
        '@_ZSt18_Rb_tree_decrementPSt18_Rb_tree_node_base': x_rb_decrement,
        '@_ZSt28_Rb_tree_rebalance_for_erasePSt18_Rb_tree_node_baseRS_': x_rb_erase,
        '@_ZNSt6chrono3_V212system_clock3nowEv': lambda m: 0, '@_ZNSt6chrono3_V212steady_clock3nowEv': lambda m: 0,
        '@__cxa_guard_acquire': lambda m, g: 1, '@__cxa_guard_release': x_noop,
        '@__cxa_pure_virtual': lambda m: (_ for _ in ()).throw(SafetyEvent('pure-virtual', 'pure virtual function called')),
        '@__cxa_begin_catch': x_ret0, '@__cxa_end_catch': x_noop,
    }
    for nm, fn in [('sin', math.sin), ('cos', math.cos), ('tan', math.tan), ('log2', math.log2), ('exp2', lambda x: 2.0 ** x),
                   ('pow', math.pow), ('log', math.log), ('sqrt', math.sqrt), ('tanh', math.tanh), ('exp', math.exp),
                   ('atan', math.atan), ('atan2', math.atan2), ('asin', math.asin), ('acos', math.acos), ('sinh', math.sinh),
                   ('cosh', math.cosh), ('log10', math.log10), ('cbrt', lambda x: math.copysign(abs(x) ** (1 / 3), x))]:
        E['@' + nm] = libm(nm, fn)
        E[f'@llvm.{nm}.f64'] = libm(nm, fn)
    E['@llvm.powi.f64.i32'] = lambda m, x, e: libm('pow', math.pow)(m, x, (float(sg32(e)) if m.mode == 'float' else Fraction(sg32(e))))
    P = [('@_ZNSo', x_ret0), ('@_ZSt16__ostream_insert', x_ret0), ('@_ZSt4endl', x_ret0), ('@_ZSt5flush', x_ret0),
         ('@_ZStls', x_ret0), ('@_ZNSt9basic_ios', x_noop), ('@_ZNSt8ios_base', x_noop), ('@_ZSt4setw', x_noop),
         ('@llvm.lifetime', x_noop), ('@llvm.experimental.noalias', x_noop), ('@llvm.dbg', x_noop),
         ('@llvm.invariant', x_noop), ('@llvm.stacksave', lambda m: NULL), ('@llvm.stackrestore', x_noop),
         ('@llvm.prefetch', x_noop)]
    return E, P


def install(m):
    E, P = base_ext()
    m.ext.update(E)
    m.ext_prefix = P + m.ext_prefix
    m.known_sqrt = set()
    m.rehash_bias = 0
    return m
