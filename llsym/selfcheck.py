# setup_cmd: verify the tool chain and run the engine self-test (interpreter vs native differential on a small harness).
import os, shutil, subprocess, sys
from . import build


def main():
    for tool in ('clang++-14', 'llvm-link-14', 'g++', '/usr/bin/z3', '/usr/bin/cvc5', 'z3-new', 'c++filt'):
        if shutil.which(tool) is None:
            print('missing tool', tool)
            return 1
    os.makedirs(build.CACHE, exist_ok=True)
    r = subprocess.run([sys.executable, '-m', 'llsym.cli', 'SELFTEST', '--no-evidence'], cwd=build.VERIF)
    return r.returncode


if __name__ == '__main__':
    sys.exit(main())
