# Block coverage of the symbolic runs: which basic blocks of the project's own functions (as compiled into the linked
# IR module) were executed by at least one path of at least one job.  Evidence only: it never decides a property, it tells
# which branches of the encoded functions the registered harness configurations did not reach.
import subprocess
from .ir import get_func

NOISE_CALLEES = ('__cxa_throw', '__cxa_allocate_exception', '__assert_fail', '_ZSt20__throw_', '_ZSt17__throw_', '_ZSt16__throw_',
                 '_ZSt19__throw_', '_ZSt21__throw_', '_ZSt24__throw_', '_ZSt25__throw_', '_ZSt28__throw_', '_ZSt9terminate', '__clang_call_terminate',
                 '@exit', '@abort', '__cxa_free_exception', '__cxa_begin_catch', '__cxa_end_catch', '__cxa_rethrow')


def is_library(name):
    n = name.lstrip('@').strip('"')
    if n.startswith(('_ZNSt', '_ZNKSt', '_ZSt', '_ZN9__gnu_cxx', '_ZNK9__gnu_cxx', '_ZNSa', '_ZNKSa', '_ZNSs', '__clang', '__cxx_global', '_GLOBAL__',
                     '_ZN6__pstl', '_ZNSi', '_ZNSo', '_Znw', '_Zda', '_Zdl', '_Zna', '_ZN10__cxxabiv', '_ZN7testing')):
        return True
    if n.startswith(('h_', 'v', 'main')) and not n.startswith('_Z'):
        return True     # harness entry points / harness helpers with C linkage
    return False


def successors(block):
    I = block[-1]
    if I.op == 'br':
        return [I.extra[0]], []
    if I.op == 'condbr':
        return list(I.extra), []
    if I.op == 'switch':
        d, cases = I.extra
        return [d] + [l for _, l in cases], []
    if I.op == 'invoke':
        return [I.extra[0]], [I.extra[1]]
    return [], []


def error_only(block):
    """block that exists only to report an error: raises, asserts, terminates, or is exception clean-up"""
    for I in block:
        if I.op in ('landingpad', 'resume'):
            return True
        if I.op in ('call', 'invoke') and I.args and I.args[0][0] == 'global' and any(c in I.args[0][1] for c in NOISE_CALLEES):
            return True
    return False


def function_blocks(f):
    """(normal blocks, error blocks): normal = reachable from the entry without taking an unwind edge and not error-only;
    a block whose every successor is an error block and that ends in unreachable is an error block too"""
    normal = set()
    work = [f.order[0]]
    while work:
        b = work.pop()
        if b in normal:
            continue
        normal.add(b)
        ok, uw = successors(f.blocks[b])
        work.extend(ok)
    err = set(b for b in normal if error_only(f.blocks[b]))
    # blocks that only lead into error blocks (argument set-up of a throw)
    changed = True
    while changed:
        changed = False
        for b in normal - err:
            ok, _ = successors(f.blocks[b])
            if ok and all(x in err for x in ok):
                err.add(b)
                changed = True
    return normal - err, err


def demangle(names):
    try:
        r = subprocess.run(['c++filt'] + [n.lstrip('@').strip('"') for n in names], capture_output=True, text=True)
        out = r.stdout.split('\n')
        return {n: (out[i][:160] if i < len(out) else n) for i, n in enumerate(names)}
    except Exception:
        return {n: n for n in names}


def report(mod, summaries, limit=250):
    cov = {}
    for s in summaries:
        for fn, labels in (s.get('cov') or {}).items():
            cov.setdefault(fn, set()).update(labels)
    rows = []
    tot = hit = 0
    never = []
    for name in list(mod.funcs):
        if is_library(name):
            continue
        if name not in cov:
            never.append(name)
            continue
        f = get_func(mod, name)
        try:
            normal, err = function_blocks(f)
        except Exception:
            continue
        c = cov[name] & normal
        tot += len(normal)
        hit += len(c)
        miss = [b for b in f.order if b in normal and b not in c]
        if miss:
            rows.append((name, len(c), len(normal), miss))
    rows.sort(key=lambda r: -(r[2] - r[1]))
    dm = demangle([r[0] for r in rows[:limit]] + never[:limit])
    return dict(
        rule='basic blocks of the project\'s own functions in the linked module, excluding blocks that only raise/assert/terminate or clean up after an exception; a block counts as executed when any path of any job of this run entered it',
        functions_executed=sum(1 for n in cov if not is_library(n)), blocks=tot, blocks_executed=hit,
        partially_covered=[dict(function=dm.get(n, n), executed=c, of=t, not_executed=miss[:24]) for n, c, t, miss in rows[:limit]],
        n_partially_covered=len(rows),
        project_functions_never_called=[dm.get(n, n) for n in never[:limit]], n_never_called=len(never),
    )
