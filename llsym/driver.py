# Orchestration: build -> symbolic execution of every job (all paths) -> SMT queries -> verdicts -> replay -> evidence.
import fnmatch, hashlib, json, multiprocessing, os, re, shutil, struct, subprocess, sys, threading, time, traceback
from concurrent.futures import ThreadPoolExecutor
from fractions import Fraction

from . import build, smt
from .ir import parse_module
from .interp import Machine, SafetyEvent, EngineError, PathEnd, UNDEF, Bits
from .ext import install
from .terms import *
from .inputs import rand_real, rand_pos, rand_int

VERIF = build.VERIF
threading.stack_size(512 << 20)

_MOD = None
_PROP = None
_OUTDIR = None


# ----------------------------------------------------------------------------------------------- execution
def make_machine(mod, job, mode='real'):
    m = Machine(mod, mode)
    install(m)
    m.nthreads = job.get('threads', 1)
    m.libm_small = bool(job.get('libm_small', False))
    m.rehash_bias = job.get('rehash_bias', 0)
    m.fork_int_selects = bool(job.get('fork_int_selects', False))
    m.decimal_literals = bool(job.get('decimal_literals', False)) and mode == 'real'
    import llsym.terms as _t
    _t.ROUND_CONCRETE[0] = bool(job.get('round_concrete', False)) and mode == 'real'
    _t.REAL_UFS[0] = bool(job.get('real_ufs', False))
    hook = job.get('machine_hook')
    if hook:
        _PROP['hooks'][hook](m, job)
    if job.get('omp_race'):
        from . import omp as _omp
        _omp.install(m, 'race', sel_loop=job.get('omp_loop', -2), sel_region=job.get('omp_region', -1))
        m.nthreads = job.get('threads', 2)
    return m


def entry_args(m, job):
    args = list(job.get('args', [])) + [0] * 32
    p = m.alloc(4 * 32, 'global', 'harness-args')
    from .interp import Ptr
    for i in range(32):
        m.store(Ptr(p.obj, 4 * i), args[i] & 0xffffffff, 4)
    return [p]


class PathResult:
    pass


def run_path(mod, job, prefix, feas, enum=None):
    m = make_machine(mod, job)
    m.prefix = prefix
    m.feas = feas
    m.enum_values = enum
    m.concretize = bool(job.get('concretize', False))
    pr = PathResult()
    pr.outcome = 'return'
    pr.detail = ''
    pr.event = None
    pr.error = None
    try:
        m.call('@' + job['entry'], entry_args(m, job))
    except PathEnd as e:
        pr.outcome = e.outcome
        pr.detail = e.detail
    except SafetyEvent as e:
        pr.outcome = 'safety'
        pr.event = dict(kind=e.kind, msg=e.msg, stack=[x for x in (e.stack or [])][-6:])
    except EngineError as e:
        pr.outcome = 'engine-error'
        pr.error = str(e) + ' @ ' + ' <- '.join(reversed(m.stack[-4:]))
    except RecursionError:
        pr.outcome = 'engine-error'
        pr.error = 'recursion limit'
    pr.m = m
    return pr


def make_feas(job, workdir):
    """eager feasibility of both sides of a new symbolic branch, decided by z3 under the path condition"""
    if not job.get('eager', True):
        return None
    to = job.get('feas_timeout', 10)

    def feas(m, c):
        res = []
        for g in (c, mk_not(c)):
            text, logic, nd = smt.build(m.assumptions, [g])
            ans, wall, raw = smt.run(text, 'z3', to + 2, workdir, tag='feas', per_query_ms=to * 1000)
            res.append(ans[0] != 'unsat')
        return res[0], res[1]
    return feas


def make_enum(job, workdir):
    """feasible values of an integer term under the path condition (solver-enumerated, for concretisation)"""
    def enum(m, t, limit):
        found = []
        while len(found) < limit:
            extra = [f'(not (= __cv {smt.num(v, "I")}))' for v in found]
            cv = sym('__cv', 'I')
            text, logic, nd = smt.build(list(m.assumptions) + [mk_cmp('eq', cv, t)], [True], extra_asserts=extra, want_values=['__cv'])
            ans, wall, raw = smt.run(text, 'z3', 30, workdir, tag='enum', per_query_ms=20000)
            if not ans or ans[0] != 'sat':
                if ans and ans[0] not in ('unsat',):
                    raise EngineError(f'value enumeration undecided: {ans}')
                break
            env = smt.parse_values(raw)
            if not env or env.get('__cv') is None:
                raise EngineError('value enumeration: no model value')
            found.append(int(env['__cv']))
        else:
            raise EngineError(f'more than {limit} feasible values while concretising')
        return sorted(found)
    return enum


def _sides(ob):
    """SMT-LIB names of the two sides of an eq/le/lt obligation (for the margin re-query of cli.run_check)"""
    if ob['kind'] not in ('eq', 'le', 'lt'):
        return None
    def ref(x):
        if isinstance(x, Term):
            return x.args[0] if x.op == 'sym' else f't{x.id}'
        return smt.num(x, 'R')
    try:
        return [ref(ob['a']), ref(ob['b'])]
    except Exception:
        return None


def margin_assert(kind, sides, text, rel='0.000001'):
    """the obligation fails by more than the native replay tolerance (relative 1e-9): |a-b| > 1e-6 (|a|+|b|+1e-3).
    Used only to steer the solver to a model that a floating-point run can exhibit; never to discharge anything."""
    a, b = sides
    for x in sides:
        if re.match(r't\d+$', x) and f'(define-fun {x} ' not in text and f'(declare-fun {x} ' not in text:
            return None
    ab = lambda x: f'(ite (>= {x} 0.0) {x} (- {x}))'
    m = f'(* {rel} (+ {ab(a)} {ab(b)} 0.001))'
    if kind == 'eq':
        return f'(assert (or (> (- {a} {b}) {m}) (> (- {b} {a}) {m})))'
    return f'(assert (> (- {a} {b}) {m}))'


def goal_of(ob):
    """returns (negated goal Bool term or python bool, trivial?)"""
    k = ob['kind']
    a, b = ob['a'], ob['b']
    if k == 'eq':
        if a is b or (is_const(a) and is_const(b) and a == b):
            return False, True
        g = mk_cmp('ne', a, b)
        return g, isinstance(g, bool) and not g
    if k == 'le':
        g = mk_not(mk_cmp('le', a, b))
        return g, isinstance(g, bool) and not g
    if k == 'lt':
        g = mk_not(mk_cmp('lt', a, b))
        return g, isinstance(g, bool) and not g
    if k == 'true':
        g = mk_not(a)
        return g, isinstance(g, bool) and not g
    if k == 'witness':
        return a, False
    if k == 'indep':
        fam = ob['extra'] + '_'
        mp = {}
        for t in symbols_of([a]):
            if t.args[0].startswith(fam):
                mp[t] = sym(t.args[0] + '__alt', t.sort)
        if not mp:
            return False, True
        a2 = substitute(a, mp)
        if a2 is a:
            return False, True
        g = mk_cmp('ne', a, a2)
        return g, isinstance(g, bool) and not g
    raise ValueError(k)


def find_witness(m, divprem, job):
    """vacuity guard, cheap variant: an explicit rational assignment satisfying every assumption and premise of the
    path (uninterpreted functions get an arbitrary deterministic interpretation).  Returns (kind, env, conds) with kind in
    'exact' | 'numeric' (floating point with margins, only for paths with irrational sqrt) | None."""
    conds = [a for a in m.assumptions] + [p for p in divprem if p is not None]
    ts = reachable(conds)
    names = [t for t in ts if t.op == 'sym']
    if any(t.sort != 'R' for t in names):
        return None, None, conds
    from .inputs import hname
    pts = job.get('witness_points') or []
    for approx in (False, True):
        for attempt in range(-len(pts), 8):
            env = {}
            if attempt < 0 and not approx and any(isinstance(v, float) for v in pts[attempt].values()):
                continue
            if attempt < 0:
                # explicit candidate points of the job (e.g. points of the unit circle for (sin theta, cos theta) symbols);
                # all their entries are kept so that symbols occurring only in obligations get the intended value too
                env = {k: (v if isinstance(v, float) else Fraction(v)) for k, v in pts[attempt].items()}   # strings like '4/5' are exact
            for t in names:
                if t.args[0] in env:
                    continue
                h = hname(t.args[0], 7919 * attempt + 13)
                if attempt % 2 == 0:
                    v = Fraction(1, 2) + Fraction((h >> 40) % 513, 512)
                else:
                    v = Fraction(((h >> 40) % 2049) - 1024, 512)
                if t.args[0].startswith('tol'):
                    # tolerances: also try very small / very large values (they steer which exit of a loop is taken)
                    v = [v, Fraction(1, 1 << 20), Fraction(1 << 20), Fraction(1, 1 << 20), Fraction(1, 64), Fraction(64), v, Fraction(1, 1 << 10)][attempt % 8]
                env[t.args[0]] = v
            try:
                val, ufv = evaluate_all(conds, {k: float(v) for k, v in env.items()} if approx else env, approx=approx)
                if all(val[c.id] is True for c in conds):
                    return ('numeric' if approx else 'exact'), env, conds
            except (ZeroDivisionError, ValueError, OverflowError):
                continue
            except KeyError:
                break
    return None, None, conds


def _t_real_ufs():
    import llsym.terms as _t
    return _t.REAL_UFS[0]


def refute_by_evaluation(goals, env, approx=False, all_syms_seed=0, conds=()):
    """goals: list of (index, negated-goal term).  Evaluates all of them at the witness point (symbols outside the
    witness get further pseudo-random values).  Returns {index: hint-assert-lines} for goals that are TRUE at the point,
    i.e. the property fails there: the solver is then asked to confirm exactly this point."""
    from .inputs import hname
    roots = [g for i, g in goals if isinstance(g, Term)]
    if not roots:
        return {}
    env = dict(env)
    for t in symbols_of(roots):
        if t.args[0] not in env:
            if t.sort != 'R':
                return {}
            h = hname(t.args[0], 31 + all_syms_seed)
            env[t.args[0]] = Fraction(((h >> 40) % 2049) - 1024, 512) if not t.args[0].endswith('__alt') else Fraction(((h >> 41) % 2049) - 1024, 256)
    conds = [c for c in conds if isinstance(c, Term)]
    try:
        val, ufv = evaluate_all(roots + conds, {k: float(v) for k, v in env.items()} if approx else env, approx=approx)
    except (ZeroDivisionError, KeyError, ValueError, OverflowError):
        return {}
    out = {}
    for i, g in goals:
        if isinstance(g, Term) and val[g.id] is True:
            cone = reachable([g] + conds)
            lines = []
            for t in cone:
                if t.op == 'sym':
                    lines.append(f'(= {t.args[0]} {smt.num(env[t.args[0]], t.sort)})')
                elif t.op == 'uf' and t.args[0] != 'sqrt' and not (approx and (t.args[0] == 'exp' or (_t_real_ufs() and t.args[0] in ('sin', 'cos', 'tanh', 'atan', 'log')))):
                    lines.append(f'(= t{t.id} {smt.num(ufv[t.id], "R")})')
            out[i] = (lines, {t.args[0]: str(env[t.args[0]]) for t in cone if t.op == 'sym'})
    return out


# ---- IEEE (bit-exact) obligations
def fp_query(ob, assumptions=()):
    """QF_FP query: the two operation trees agree for all finite doubles.  Returns text or ('structural', reason)"""
    a, b = ob['a'], ob['b']
    if a is b:
        return None
    ts = reachable([x for x in (a, b) if isinstance(x, Term)])
    nops = sum(1 for t in ts if t.op != 'sym')
    if nops > 24:
        return ('too-large', nops)
    lines = ['(set-logic QF_FP)']
    name = {}

    def c2fp(c):
        f = float(Fraction(c))
        if Fraction(f) != Fraction(c):
            raise ValueError('constant is not a double')
        bits = struct.unpack('<Q', struct.pack('<d', f))[0]
        return f'((_ to_fp 11 53) #x{bits:016x})'
    try:
        for t in ts:
            if t.op == 'sym':
                lines.append(f'(declare-fun {t.args[0]} () (_ FloatingPoint 11 53))')
                lines.append(f'(assert (not (fp.isNaN {t.args[0]})))')
                lines.append(f'(assert (not (fp.isInfinite {t.args[0]})))')
                name[t.id] = t.args[0]
                continue
            o = t.op
            if o == 'mul' and len(t.args) == 2 and isinstance(t.args[0], Term) and not isinstance(t.args[1], Term):
                # terms.mk rewrites x / c (c constant) as x * (1/c), exact over the reals; restore the division the code performs
                # when 1/c is not a double but c is
                c = Fraction(t.args[1])
                if Fraction(float(c)) != c and c != 0 and Fraction(float(1 / c)) == 1 / c:
                    name[t.id] = f'f{t.id}'
                    lines.append(f'(define-fun f{t.id} () (_ FloatingPoint 11 53) (fp.div RNE {name[t.args[0].id]} {c2fp(1 / c)}))')
                    continue
            aa = [name[x.id] if isinstance(x, Term) else c2fp(x) for x in t.args]
            if o in ('add', 'sub', 'mul', 'div'):
                e = f'(fp.{o} RNE {aa[0]} {aa[1]})'
            elif o == 'neg':
                e = f'(fp.neg {aa[0]})'
            else:
                return ('unsupported-op', o)
            name[t.id] = f'f{t.id}'
            lines.append(f'(define-fun f{t.id} () (_ FloatingPoint 11 53) {e})')
        ra = name[a.id] if isinstance(a, Term) else c2fp(a)
        rb = name[b.id] if isinstance(b, Term) else c2fp(b)
    except ValueError as e:
        return ('inexact-constant', str(e))
    # the path's assumptions with the native (double) semantics of the harness, where they translate: the model is then a
    # point the native replay accepts
    BOOLOP = {'lt': 'fp.lt', 'le': 'fp.leq', 'eq': 'fp.eq'}
    for c in assumptions:
        if not isinstance(c, Term):
            continue
        sub = []
        nm = dict(name)
        ok = True
        try:
            for t in reachable([c]):
                if t.id in nm:
                    continue
                if t.op == 'sym':
                    if t.sort != 'R':
                        ok = False
                        break
                    sub.append(f'(declare-fun {t.args[0]} () (_ FloatingPoint 11 53))')
                    sub.append(f'(assert (not (fp.isNaN {t.args[0]})))')
                    sub.append(f'(assert (not (fp.isInfinite {t.args[0]})))')
                    nm[t.id] = t.args[0]
                    continue
                if t.op in ('add', 'sub'):   # (products and quotients make the bit-blasted query intractable: such assumptions are left out)
                    aa = [nm[x.id] if isinstance(x, Term) else c2fp(x) for x in t.args]
                    nm[t.id] = f'(fp.{t.op} RNE {aa[0]} {aa[1]})'
                elif t.op == 'neg':
                    nm[t.id] = f'(fp.neg {nm[t.args[0].id]})'
                elif t.op in BOOLOP:
                    aa = [nm[x.id] if isinstance(x, Term) else c2fp(x) for x in t.args]
                    nm[t.id] = f'({BOOLOP[t.op]} {aa[0]} {aa[1]})'
                elif t.op == 'not':
                    nm[t.id] = f'(not {nm[t.args[0].id]})'
                elif t.op in ('and', 'or'):
                    nm[t.id] = f'({t.op} ' + ' '.join(nm[x.id] if isinstance(x, Term) else ('true' if x else 'false') for x in t.args) + ')'
                else:
                    ok = False
                    break
        except (ValueError, KeyError):
            ok = False
        if ok and c.id in nm:
            lines += sub
            lines.append(f'(assert {nm[c.id]})')
            name.update({k: v for k, v in nm.items() if not v.startswith('(')})
    lines.append(f'(assert (not (fp.eq {ra} {rb})))')
    lines.append('(check-sat)')
    syms = sorted(set(re.findall(r'\(declare-fun (\S+) \(\)', '\n'.join(lines))))
    if syms:
        lines.append('(get-value (' + ' '.join(syms) + '))')
    return '\n'.join(lines) + '\n'


def job_worker(idx):
    """runs in a forked worker: explores all paths of job idx, writes the query batches, returns a summary"""
    out = {}

    def body():
        try:
            out['r'] = _job_worker(idx)
        except Exception as e:
            out['r'] = dict(idx=idx, fatal=traceback.format_exc())
    th = threading.Thread(target=body)
    th.start()
    th.join()
    return out['r']


def _job_worker(idx):
    job = _PROP['jobs'][idx]
    t0 = time.time()
    reset_terms()
    workdir = os.path.join(_OUTDIR, f'job{idx}')
    os.makedirs(workdir, exist_ok=True)
    feas = make_feas(job, workdir)
    enum = make_enum(job, workdir) if job.get('concretize') else None
    worklist = [()]
    paths = []
    race_plan = None
    if job.get('omp_race'):
        # discovery run: no region selected -> number of parallel regions this entry executes
        pr0 = run_path(_MOD, dict(job, omp_region=-1), (), None, None)
        if pr0.outcome == 'engine-error':
            return dict(idx=idx, fatal='race discovery failed: ' + str(pr0.error))
        race_plan = []
        for r in range(pr0.m.omp.region_count):
            pr1 = run_path(_MOD, dict(job, omp_region=r, omp_loop=-2), (), None, None)
            nloops = len([k for k in pr1.m.omp.loops if k[0] == r])
            race_plan.append((r, -2))
            race_plan += [(r, l) for l in range(nloops)]
        job = dict(job, omp_region=race_plan[0][0], omp_loop=race_plan[0][1]) if race_plan else job
        race_pos = 0
    summary = dict(idx=idx, label=job.get('label', job['entry']), entry=job['entry'], args=job.get('args', []), paths=[],
                   steps=0, fn_steps={}, ext_hits={}, batches=[], trivial=0, obligations=0, events=[], errors=[],
                   reached=[], outcomes={}, nsyms=0, nterms=0, libm_log={})
    max_paths = job.get('max_paths', 4000)
    reached = set()
    bsize = job.get('batch', 8)
    while worklist or (race_plan and race_pos + 1 < len(race_plan)):
        if not worklist:
            race_pos += 1
            job = dict(job, omp_region=race_plan[race_pos][0], omp_loop=race_plan[race_pos][1])
            worklist = [()]
        prefix = worklist.pop()
        pr = run_path(_MOD, job, prefix, feas, enum)
        m = pr.m
        worklist.extend(m.pending)
        summary['steps'] += m.steps
        for k, v in m.fn_steps.items():
            summary['fn_steps'][k] = summary['fn_steps'].get(k, 0) + v
        for k, v in m.cov.items():
            summary.setdefault('cov', {}).setdefault(k, set()).update(v)
        for k, v in m.ext_hits.items():
            summary['ext_hits'][k] = summary['ext_hits'].get(k, 0) + v
        for k, v in list(m.libm_log.items())[:40]:
            summary['libm_log'][str(tuple(str(x) for x in k))] = str(v)
        reached |= m.reached
        summary['outcomes'][pr.outcome] = summary['outcomes'].get(pr.outcome, 0) + 1
        pid = len(summary['paths'])
        pinfo = dict(id=pid, decisions=[int(d) for d in m.taken], choices=dict(m.choice_log), outcome=pr.outcome, detail=pr.detail, nobl=len(m.obligations),
                     nass=len(m.assumptions), ndiv=len(m.divisors))
        summary['paths'].append(pinfo)
        summary['nsyms'] = max(summary['nsyms'], len(m.syms))
        if pr.outcome == 'engine-error':
            summary['errors'].append(dict(path=pid, error=pr.error))
            continue
        if pr.outcome == 'infeasible':
            continue
        # ---- premises
        divprem = []
        seen = set()
        for d in m.divisors:
            if d.id in seen:
                divprem.append(None)
                continue
            seen.add(d.id)
            divprem.append(mk_cmp('ne', d, Fraction(0)))
        expected = job.get('expect', 'return')
        bad_outcome = (expected != 'any' and pr.outcome not in ('safety',) and pr.outcome != expected
                       and not (expected == 'return' and pr.outcome == 'assume_false'))
        if pr.outcome == 'safety' or bad_outcome:
            if pr.outcome == 'safety':
                ev = dict(pr.event)
            else:
                ev = dict(kind='outcome', msg=f'path ended with "{pr.outcome} {pr.detail}" but "{expected}" was expected', stack=[])
            ev['path'] = pid
            # the event is real only if the path condition is satisfiable: witness query with model
            ass = list(m.assumptions) + [p for p in divprem if p is not None]
            names = sorted(t.args[0] for t in symbols_of(ass))
            text, logic, nd = smt.build(ass, [True], want_values=names or None)
            f = os.path.join(workdir, f'event_p{pid}.smt2')
            open(f, 'w').write(text)
            ev['query'] = f
            ev['logic'] = logic
            summary['events'].append(ev)
        # ---- integer side obligations (overflow / wrap) for symbolic integer arithmetic
        obs = list(m.obligations)
        if job.get('int_ranges', True):
            seen_r = set()
            for (t, bits, kind, where) in m.int_ranges:
                if not isinstance(t, Term):
                    continue
                key = (t.id, bits, kind == 'nonzero')
                if key in seen_r:
                    continue
                seen_r.add(key)
                if kind == 'inbounds':
                    c = t
                elif kind == 'nonzero':
                    c = mk_cmp('ne', t, 0)
                else:
                    c = mk_and(mk_cmp('le', -(1 << (bits - 1)), t), mk_cmp('le', t, (1 << (bits - 1)) - 1))
                obs.append(dict(kind='true', a=c, b=True, tag=f'int-{kind}@{where[-60:]}', k=len(seen_r), nass=len(m.assumptions),
                                ndiv=len(m.divisors), extra=None))
        # ---- pivot / divisor safety: "documented precondition => the divisor is non-zero", one obligation per division,
        #      each under the assumptions and the non-vanishing of the EARLIER divisors only
        if job.get('div_safety'):
            seen_d = set()
            for di, dterm in enumerate(m.divisors):
                if dterm.id in seen_d:
                    continue
                seen_d.add(dterm.id)
                obs.append(dict(kind='true', a=mk_cmp('ne', dterm, Fraction(0)), b=True, tag='divisor-nonzero', k=di, nass=len(m.assumptions), ndiv=di, extra=None))
        # ---- vacuity twin: assumptions and premises of the whole path must be satisfiable
        wkind, wenv, wconds = (None, None, None)
        wopt = job.get('witness', True)
        if wopt == 'lazy':
            # only when some obligation is not discharged structurally (then the point also serves point refutation)
            wopt = any(ob['kind'] != 'bits' and not goal_of(ob)[1] for ob in obs)
            lazy_point_only = True
        else:
            lazy_point_only = False
        if obs and wopt:
            wkind, wenv, wconds = find_witness(m, divprem, job)
            if wkind == 'numeric':
                summary['numeric_witnesses'] = summary.get('numeric_witnesses', 0) + 1
            elif wkind == 'exact':
                summary['concrete_witnesses'] = summary.get('concrete_witnesses', 0) + 1
        if obs and wopt and wkind is None and not lazy_point_only:
            obs.append(dict(kind='witness', a=True, b=True, tag='__path_satisfiable', k=pid, nass=len(m.assumptions),
                            ndiv=len(m.divisors), extra=None))
        # ---- group obligations into batches with identical assumption prefixes
        groups = {}
        pending = []
        for oi, ob in enumerate(obs):
            summary['obligations'] += 1
            if ob['kind'] == 'bits':
                q = fp_query(ob, m.assumptions[:ob['nass']])
                if q is None:
                    summary['trivial'] += 1
                    continue
                if isinstance(q, tuple):
                    summary['batches'].append(dict(path=pid, kind='bits-structural', reason=list(q), goals=[dict(tag=ob['tag'], k=ob['k'], kind='bits')],
                                                   file=None))
                    continue
                f = os.path.join(workdir, f'p{pid}_fp{oi}.smt2')
                open(f, 'w').write(q)
                # companion query over the reals: the path's assumptions alone, used to complete a floating-point model with values
                # for the symbols the QF_FP query does not mention (so that the native replay follows the same path)
                f_path = None
                ass = [c for c in m.assumptions[:ob['nass']] if isinstance(c, Term)]
                if ass:
                    try:
                        tp, _, _ = smt.build(ass, [True])
                        nmz = sorted(t.args[0] for t in symbols_of(ass))
                        tp = tp.replace('(check-sat)\n', '(check-sat)\n(get-value (' + ' '.join(nmz) + '))\n')
                        f_path = os.path.join(workdir, f'p{pid}_fp{oi}_path.smt2')
                        open(f_path, 'w').write(tp)
                    except Exception:
                        f_path = None
                summary['batches'].append(dict(path=pid, kind='bits', file=f, file_path=f_path, logic='QF_FP', goals=[dict(tag=ob['tag'], k=ob['k'], kind='bits')]))
                continue
            g, trivial = goal_of(ob)
            if trivial:
                summary['trivial'] += 1
                continue
            pending.append((oi, ob, g))
        # point refutation: obligations that already fail at the (exact) witness point get a guided query
        hints = {}
        if wkind is not None and job.get('point_refutation', True):
            hints = refute_by_evaluation([(oi, g) for oi, ob, g in pending if ob['kind'] not in ('witness',)], wenv, approx=(wkind == 'numeric'), conds=wconds)
        for oi, ob, g in pending:
            if oi in hints:
                groups.setdefault(('hint', oi), []).append((ob, g))
            else:
                groups.setdefault((ob['nass'], ob['ndiv'], ob['kind'] == 'witness'), []).append((ob, g))
        for key, lst in groups.items():
            hinted = key[0] == 'hint'
            if hinted:
                nass, ndiv, wit = lst[0][0]['nass'], lst[0][0]['ndiv'], False
            else:
                nass, ndiv, wit = key
            chunks = [lst[c0:c0 + bsize] for c0 in range(0, len(lst), bsize)]
            ci = 0
            while ci < len(chunks):
                chunk = chunks[ci]
                ci += 1
                goals = [g for ob, g in chunk]
                ass = list(m.assumptions[:nass])
                cone = set(t.id for t in reachable([g for g in goals if isinstance(g, Term)] + ass))
                if wit or hinted:
                    ass += [p for p in divprem[:ndiv] if p is not None]
                else:
                    ass += [p for d, p in zip(m.divisors[:ndiv], divprem[:ndiv]) if p is not None and d.id in cone]
                text, logic, nd = smt.build(ass, goals, extra_asserts=hints[key[1]][0] if hinted else ())
                if len(chunk) == 1 and not wit:
                    names = sorted(t.args[0] for t in symbols_of([g for g in goals if isinstance(g, Term)] + [x for x in ass if isinstance(x, Term)]))
                    if names:
                        text = text.replace('(check-sat)\n', '(check-sat)\n(get-value (' + ' '.join(names) + '))\n')
                if len(chunk) > 1 and logic not in ('QF_LRA', 'QF_LIA'):
                    # z3's incremental mode (push/pop) does not use nlsat: one process per non-linear goal
                    chunks[ci:ci] = [[c] for c in chunk]
                    continue
                bid = len(summary['batches'])
                f = os.path.join(workdir, f'p{pid}_b{bid}.smt2')
                open(f, 'w').write(text)
                f_free = None
                if hinted:
                    # the same obligation without the pinned point: an 'unsat' on the pinned query says nothing about other points
                    t_free, _, _ = smt.build(ass, goals)
                    f_free = os.path.join(workdir, f'p{pid}_b{bid}_free.smt2')
                    open(f_free, 'w').write(t_free)
                summary['batches'].append(dict(path=pid, kind='witness' if wit else 'prop', file=f, file_free=f_free, logic=logic, ndefs=nd, hinted=hinted,
                                               hint_env=hints[key[1]][1] if hinted else None, cap=(15 if hinted else None),
                                               goals=[dict(tag=ob['tag'], k=ob['k'], kind=ob['kind'], extra=ob.get('extra'), sides=_sides(ob)) for ob, g in chunk]))
        if getattr(m, 'omp', None) is not None and m.omp.mode == 'race' and pr.outcome not in ('engine-error', 'infeasible'):
            from . import omp as _omp
            sp = _omp.serialise_path(m, pid)
            sp['region'] = job.get('omp_region')
            sp['loop'] = job.get('omp_loop')
            summary.setdefault('omp_paths', []).append(sp)
        summary['nterms'] = max(summary['nterms'], Term._n)
        if len(summary['paths']) >= max_paths:
            summary['errors'].append(dict(path=-1, error=f'path budget {max_paths} exhausted with {len(worklist)} prefixes pending'))
            break
    summary['reached'] = sorted(reached)
    summary['exec_s'] = time.time() - t0
    return summary


# ----------------------------------------------------------------------------------------------- float-mode differential
def float_run(mod, job, seed):
    m = make_machine(mod, job, 'float')
    m.inputs = lambda name, kind: rand_pos(name, seed) if kind == 'pos' else rand_real(name, seed)
    ctr = {}

    def ii(name, lo, hi):
        return rand_int(name, seed, lo, hi)
    m.int_inputs = ii
    # vchoice natively uses name#counter
    from . import ext as _ext

    def vchoice(mm, nm, n):
        name = mm.cstr(nm)
        c = ctr.get(name, 0)
        ctr[name] = c + 1
        from .inputs import hname
        return hname(f'{name}#{c}', seed) % n
    m.ext['@vchoice'] = vchoice
    outcome = 'return'
    try:
        m.call('@' + job['entry'], entry_args(m, job))
    except PathEnd as e:
        outcome = e.outcome
    except SafetyEvent as e:
        outcome = 'safety:' + e.kind
    lines = []

    def hx(d):
        if isinstance(d, bool):
            d = 1.0 if d else 0.0
        if isinstance(d, int):
            d = float(d)
        return f'{struct.unpack("<Q", struct.pack("<d", d))[0]:016x}'
    # the native runtime prints in program order; rebuild the same order from the machine's logs
    return m, outcome, hx


def diff_worker(arg):
    out = {}

    def body():
        try:
            out['r'] = _diff_worker(arg)
        except Exception:
            out['r'] = dict(ok=False, why='exception ' + traceback.format_exc()[-1500:], idx=arg[0])
    th = threading.Thread(target=body)
    th.start()
    th.join()
    return out['r']


def _diff_worker(arg):
    idx, seed, exe = arg
    job = _PROP['jobs'][idx]
    reset_terms()
    for attempt in range(6):
        sd = seed + 1000 * attempt
        r = subprocess.run([exe, job['entry'], f'rand:{sd}'] + [str(a) for a in job.get('args', [])], capture_output=True, text=True,
                           timeout=600)
        if r.returncode == 3 and 'ASSUME-FALSE' in r.stdout:
            continue
        break
    else:
        return dict(ok=True, skipped='assumptions not met by random inputs', idx=idx, compared=0)
    nat_out = []
    for ln in r.stdout.split('\n'):
        p = ln.split()
        if not p:
            continue
        if p[0] == 'OUT':
            nat_out.append(('out', p[1], int(p[2]), p[3]))
        elif p[0] == 'OUTI':
            nat_out.append(('outi', p[1], int(p[2]), p[3]))
        elif p[0] == 'CHK' and p[1] not in ('indep', 'witness', 'true'):
            nat_out.append(('chk', p[2], int(p[3]), p[4], p[5]))
    if r.returncode not in (0, 1):
        return dict(ok=False, why=f'native run failed rc={r.returncode}: {r.stderr[-300:]}', idx=idx)
    m, outcome, hx = float_run(_MOD, job, sd)
    eng = []
    # engine logs: outs and obligations interleaved in program order is not recorded; compare as multisets per kind, in order
    eo = [('out' if not isinstance(v, int) or isinstance(v, bool) else 'outi', t, k, hx(v) if not isinstance(v, int) else str(v)) for (t, k, v) in m.outs]
    ec = [('chk', o['tag'], o['k'], hx(o['a']), hx(o['b'])) for o in m.obligations if o['kind'] in ('eq', 'le', 'lt', 'bits')]
    no = [x for x in nat_out if x[0] in ('out', 'outi')]
    nc = [x for x in nat_out if x[0] == 'chk']
    if outcome != 'return' and not outcome.startswith('threw'):
        return dict(ok=False, why=f'float-mode engine run ended with {outcome}', idx=idx)
    mism = []
    if len(eo) != len(no) or len(ec) != len(nc):
        return dict(ok=False, why=f'different number of observations: engine {len(eo)}+{len(ec)} native {len(no)}+{len(nc)}', idx=idx)
    for x, y in zip(eo + ec, no + nc):
        if x != y:
            mism.append((x, y))
    return dict(ok=not mism, why=f'{len(mism)} bit mismatches, first: {mism[:2]}' if mism else '', idx=idx, compared=len(eo) + len(ec), seed=sd)


# ----------------------------------------------------------------------------------------------- solving
def solve_batch(b, quick):
    """decide one batch file; returns list of answers aligned with goals"""
    if b.get('file') is None:
        return dict(answers=['structural'] * len(b['goals']), wall=0.0, solver='none')
    logic = b.get('logic')
    cap = b.get('cap') or (60 if quick else 300)
    n = len(b['goals'])
    text = open(b['file']).read()
    wd = os.path.dirname(b['file'])
    primary = 'cvc5' if logic == 'QF_LRA' else 'z3'
    other = 'z3' if primary == 'cvc5' else 'z3new'
    # whole batch under one hard cap (the common all-unsat case takes milliseconds) ...
    ans, wall, raw = smt.run(text, primary, cap, wd, tag='s', per_query_ms=cap * 1000, decimal=(primary == 'z3' and n == 1))
    solver = primary
    raw_model = raw if (n == 1 and ans and ans[0] == 'sat') else None

    def undecided(a):
        return a.startswith('error') or a in ('unknown', 'timeout')
    if any(undecided(a) for a in ans) and n > 1:
        # ... then every unanswered goal on its own, hard cap each
        for gi in range(n):
            if undecided(ans[gi]):
                q = single_goal_text(text, gi, None)
                a1, w1, r1 = smt.run(q, primary, cap, wd, tag='s1', per_query_ms=cap * 1000)
                wall += w1
                ans[gi] = a1[0]
    if any(undecided(a) for a in ans):
        for gi in range(n):
            if undecided(ans[gi]):
                q = single_goal_text(text, gi, None) if n > 1 else text
                a2, w2, r2 = smt.run(q, other, cap, wd, tag='s2', per_query_ms=cap * 1000, decimal=(n == 1))
                wall += w2
                if a2[0] in ('sat', 'unsat'):
                    ans[gi] = a2[0]
                    if n == 1 and a2[0] == 'sat':
                        raw_model = r2
        solver = primary + '+' + other
    if b.get('hinted') and b.get('file_free') and any(a == 'unsat' for a in ans):
        # the pinned point does not violate the obligation after all (a numeric point, or pins the axioms reject):
        # decide the obligation itself, unpinned, under the ordinary cap
        r = solve_batch(dict(b, file=b['file_free'], hinted=False, file_free=None, cap=None), quick)
        r['wall'] += wall
        r['pin_rejected'] = True
        return r
    return dict(answers=ans, wall=wall, solver=solver, raw_model=raw_model)


def single_goal_text(batch_text, gi, names):
    """extract goal gi of a push/pop batch as a stand-alone query with get-value"""
    lines = batch_text.split('\n')
    if '(push 1)' not in batch_text:
        body = [l for l in lines if not l.startswith('(get-value')]
        out = []
        for l in body:
            out.append(l)
            if l == '(check-sat)' and names:
                out.append('(get-value (' + ' '.join(names) + '))')
        return '\n'.join(out) + '\n'
    hdr = []
    blocks = []
    cur = None
    for l in lines:
        if l == '(push 1)':
            cur = []
        elif l == '(pop 1)':
            blocks.append(cur)
            cur = None
        elif cur is not None:
            cur.append(l)
        else:
            hdr.append(l)
    out = [l for l in hdr if l] + blocks[gi]
    if names:
        out.append('(get-value (' + ' '.join(names) + '))')
    return '\n'.join(out) + '\n'


def declared_syms(text):
    return re.findall(r'^\(declare-fun (\S+) \(\) (?:Real|Int|Bool)\)', text, re.M)


def get_model(b, gi, extra_asserts=(), cap=300):
    text = open(b['file']).read()
    names = declared_syms(text)
    q = single_goal_text(text, gi, names)
    if extra_asserts:
        q = q.replace('(check-sat)', '\n'.join(extra_asserts) + '\n(check-sat)')
    logic = b.get('logic')
    primary = 'cvc5' if logic == 'QF_LRA' else 'z3'
    ans, wall, raw = smt.run(q, primary, cap, os.path.dirname(b['file']), tag='m', decimal=(primary == 'z3'))
    if ans and ans[0] == 'sat':
        env = smt.parse_values(raw)
        return env, raw
    if primary == 'cvc5':
        ans, wall, raw = smt.run(q, 'z3', cap, os.path.dirname(b['file']), tag='m', decimal=True)
        if ans and ans[0] == 'sat':
            return smt.parse_values(raw), raw
    return None, raw


# ----------------------------------------------------------------------------------------------- replay
def write_vals(path, env, header=''):
    with open(path, 'w') as f:
        if header:
            for ln in header.split('\n'):
                f.write('# ' + ln + '\n')
        for k in sorted(env):
            v = env[k]
            if v is None:
                continue
            if isinstance(v, bool):
                v = int(v)
            if isinstance(v, Fraction) and v.denominator != 1:
                f.write(f'{k} {float(v)!r}\n')
            else:
                f.write(f'{k} {int(v) if not isinstance(v, float) else v!r}\n')


def native_replay(exe, job, valsfile, timeout=600, rand_seed=None):
    mode = f'vals:{valsfile}' if rand_seed is None else f'rand:{rand_seed}'
    r = subprocess.run([exe, job['entry'], mode] + [str(a) for a in job.get('args', [])], capture_output=True, text=True,
                       timeout=timeout)
    chks = {}
    order = []
    for ln in r.stdout.split('\n'):
        p = ln.split()
        if p and p[0] == 'CHK':
            chks[(p[2], int(p[3]), p[1])] = (p[6] == 'ok', p[4], p[5], ' '.join(p[7:]))
    return r.returncode, chks, r.stdout[-2000:] + r.stderr[-2000:]
