# python3-vt -m llsym.debug <prop> <label-substring> [max paths]: explore the paths of one job and print outcomes/events
import importlib, sys, os, threading
from . import build, driver
from .ir import parse_module
from .terms import *


def main():
    sys.path.insert(0, build.VERIF)
    P = importlib.import_module('props.' + sys.argv[1])
    jobs = [j for j in P.jobs(os.environ.get('VERIF_TIER', 'quick'), 1) if sys.argv[2] in j['label']]
    job = jobs[0]
    maxp = int(sys.argv[3]) if len(sys.argv) > 3 else 50
    ll, files = build.build_ir(P.SOURCES, list(getattr(P, 'FLAGS', [])) + list(getattr(P, 'IR_FLAGS', [])))
    mod = parse_module(open(ll).read())
    driver._PROP = dict(jobs=jobs, hooks=getattr(P, 'HOOKS', {}))
    work = [()]
    n = 0
    while work and n < maxp:
        prefix = work.pop()
        pr = driver.run_path(mod, job, prefix, None)
        m = pr.m
        work.extend(m.pending)
        print(f'path {n}: decisions={[int(d) for d in m.taken]} outcome={pr.outcome} {pr.detail} obligations={len(m.obligations)} steps={m.steps}')
        if pr.event:
            print('   EVENT', pr.event)
        if pr.error:
            print('   ERROR', pr.error)
        nt = sum(1 for ob in m.obligations if not driver.goal_of(ob)[1])
        print(f'   nontrivial obligations: {nt}; reached={sorted(m.reached)}')
        if os.environ.get('SHOW_COND'):
            for c in m.assumptions[-int(os.environ['SHOW_COND']):]:
                print('   COND', show(c, 4)[:300])
        n += 1


if __name__ == '__main__':
    t = threading.Thread(target=main)
    t.start()
    t.join()
