# Deterministic pseudo-random inputs, bit-identical to runtime/vrt.cpp (differential validation).
M64 = (1 << 64) - 1


def hname(name, seed):
    h = 1469598103934665603
    for c in name.encode():
        h ^= c
        h = (h * 1099511628211) & M64
    h ^= (seed * 0x9E3779B97F4A7C15) & M64
    h = (h + 0x9E3779B97F4A7C15) & M64
    h = ((h ^ (h >> 30)) * 0xBF58476D1CE4E5B9) & M64
    h = ((h ^ (h >> 27)) * 0x94D049BB133111EB) & M64
    return h ^ (h >> 31)


def rand_real(name, seed):
    return (float((hname(name, seed) >> 40) % 2049) - 1024.0) / 512.0


def rand_pos(name, seed):
    return 0.5 + float((hname(name, seed) >> 40) % 513) / 512.0


def rand_int(name, seed, lo, hi):
    return lo + hname(name, seed) % (hi - lo + 1)
