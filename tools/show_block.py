#!/usr/bin/env python3
"""tools/show_block.py <module.ll> <function-substring> <label> [...]: print basic blocks of a function of a linked module (to read coverage gaps)"""
import sys, re, subprocess
txt = open(sys.argv[1]).read().split('\n')
i = 0
while i < len(txt):
    if txt[i].startswith('define') and sys.argv[2] in txt[i]:
        j = i
        while txt[j] != '}': j += 1
        body = txt[i:j]
        for lab in sys.argv[3:]:
            lab = lab.lstrip('%')
            on = False
            for l in body:
                if re.match(rf'^{lab}:', l): on = True
                elif re.match(r'^\d+:', l) and on: break
                if on: print(l[:200])
            print('---')
        break
    i += 1
