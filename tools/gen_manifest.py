#!/usr/bin/env python3
# regenerates MANIFEST.json from the property modules (props/Cnn.py) and props/NOT_APPLICABLE.py
import glob, importlib, json, os, sys
V = os.path.dirname(os.path.dirname(os.path.abspath(__file__)))
sys.path.insert(0, V)
checks = []
served = []
for f in sorted(glob.glob(os.path.join(V, 'props', 'C*.py'))):
    pid = os.path.basename(f)[:-3]
    P = importlib.import_module('props.' + pid)
    served.append(pid)
    checks.append({
        'property_id': pid,
        'quick_cmd': f'./check {pid} --tier quick',
        'thorough_cmd': f'./check {pid} --tier thorough',
        'evidence_file': f'evidence/{pid}.json',
        'replay_cmd_template': f'./check {pid} --replay {{path}}',
        'engine': 'llsym',
        'level_claimed': {'category': 'other', 'text': P.LEVEL_TEXT, 'design_ref': P.DESIGN_REF},
        'level_note': P.LEVEL_NOTE,
        'technique': P.TECHNIQUE,
    })
NA = importlib.import_module('props.NOT_APPLICABLE').NOT_APPLICABLE
hooks_commits = importlib.import_module('props.NOT_APPLICABLE').HOOK_COMMITS
m = {
    'version': 1,
    'setup_cmd': 'python3-vt -m compileall -q llsym props && python3-vt -m llsym.selfcheck',
    'hooks': {'guard': 'SCICOMPMOD_GMGPOLAR_VERIF',
              'enable': 'llsym/build.py passes -DSCICOMPMOD_GMGPOLAR_VERIF to clang++-14 (IR) and g++ (native replay) for every translation unit it compiles from /repo',
              'baseline_off_cmd': 'cmake -G Ninja -S /repo -B /repo/_build -DCMAKE_BUILD_TYPE=Release && cmake --build /repo/_build && ctest --test-dir /repo/_build -j8 --timeout 900',
              'source_commits': hooks_commits, 'add_only': True},
    'engines': [{'name': 'llsym', 'path': 'llsym/', 'serves_properties': served,
                 'kind_free_text': 'bounded symbolic executor for the clang-14 LLVM IR of the real sources (doubles as exact real terms, symbolic integers as mathematical ints with overflow obligations); obligations decided by z3 4.8.12 (non-linear/integer/FP) and cvc5 1.0.3 (linear), counterexamples replayed against a native g++ build'}],
    'checks': checks,
    'not_applicable': [{'property_id': k, 'reason': v} for k, v in NA.items() if k not in served],
    'notes': 'DESIGN.md explains approach, bounds and findings; known_findings.json lists recorded/fixed defects; seeded/ holds the independent breaking changes used to test the checks.',
}
json.dump(m, open(os.path.join(V, 'MANIFEST.json'), 'w'), indent=1)
print('checks:', served, 'not_applicable:', [x['property_id'] for x in m['not_applicable']])
