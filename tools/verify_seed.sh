#!/bin/bash
# verify_seed.sh <id> <worktree> <outdir>: confirm an independently written breaking change myself:
# (1) project builds and the full ctest suite passes WITH the change, (2) demo fails with it, (3) demo passes without it
id=$1; wt=$2; out=$3
log=$out/verify.log
{
echo "== $id $(date -u +%FT%TZ)"
cd $wt || exit 9
cmake --build _build -j6 2>&1 | tail -1
ctest --test-dir _build -j4 --timeout 900 2>&1 | tail -3
echo "-- demo WITH change"
bash $out/build_and_run.sh $wt > $out/demo_with.verify.txt 2>&1; echo "exit=$?"; tail -3 $out/demo_with.verify.txt
git apply -R $out/patch.diff   # (not git stash: the stash stack is shared by all worktrees)
echo "-- demo WITHOUT change"
bash $out/build_and_run.sh $wt > $out/demo_without.verify.txt 2>&1; echo "exit=$?"; tail -3 $out/demo_without.verify.txt
git apply $out/patch.diff
git diff --stat | tail -1
} > $log 2>&1
