#!/usr/bin/env python3
"""Regression for the checks themselves: apply every independently written breaking change under seeded/ to a scratch
worktree of /repo's HEAD and run the quick check of the property it breaks; the check must exit 1 with a VIOLATION line.
Nothing is ever applied to /repo itself.   usage: tools/run_seeded.py [name-substring ...]"""
import glob, json, os, shutil, subprocess, sys, time

V = os.path.dirname(os.path.dirname(os.path.abspath(__file__)))


def sh(cmd, **kw):
    return subprocess.run(cmd, shell=True, capture_output=True, text=True, **kw)


def main():
    want = sys.argv[1:]
    rows = []
    for d in sorted(glob.glob(os.path.join(V, 'seeded', '*'))):
        name = os.path.basename(d)
        if want and not any(w in name for w in want):
            continue
        meta = json.load(open(os.path.join(d, 'meta.json')))
        pid = meta['property']
        wt = f'/tmp/seedrun_{name}'
        sh(f'git -C /repo worktree remove --force {wt}')
        shutil.rmtree(wt, ignore_errors=True)
        r = sh(f'git -C /repo worktree add -q --detach {wt} HEAD')
        a = sh(f'git -C {wt} apply {d}/patch.diff')
        if a.returncode != 0:
            a = sh(f'git -C {wt} apply --3way {d}/patch.diff')
        if a.returncode != 0:
            rows.append((name, pid, 'patch does not apply to HEAD', ''))
            print(rows[-1], flush=True)
            sh(f'git -C /repo worktree remove --force {wt}')
            continue
        t0 = time.time()
        c = sh(f'cd {V} && VERIF_REPO={wt} timeout 3000 ./check {pid} --no-evidence')
        viol = [l for l in c.stdout.split('\n') if l.startswith('VIOLATION')]
        rows.append((name, pid, f'exit={c.returncode} violations={len(viol)} wall={time.time() - t0:.0f}s', viol[0][:160] if viol else ''))
        sh(f'git -C /repo worktree remove --force {wt}')
        shutil.rmtree(wt, ignore_errors=True)
        print(rows[-1], flush=True)
    bad = [r for r in rows if not r[2].startswith('exit=1')]
    print(f'{len(rows) - len(bad)}/{len(rows)} seeded changes detected')
    return 1 if bad else 0


if __name__ == '__main__':
    sys.exit(main())
