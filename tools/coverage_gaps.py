#!/usr/bin/env python3
"""tools/coverage_gaps.py <id> [substring ...]: blocks of the project's functions that the last run of ./check <id> did not execute
(from evidence/<id>.json; evidence only, see llsym/coverage.py)"""
import json, sys
def find(o, k):
    if isinstance(o, dict):
        if k in o: return o[k]
        for v in o.values():
            r = find(v, k)
            if r is not None: return r
    if isinstance(o, list):
        for v in o:
            r = find(v, k)
            if r is not None: return r
    return None
d = json.load(open(f'/verif/evidence/{sys.argv[1]}.json'))
bc = find(d, 'block_coverage')
want = sys.argv[2:]
print({k: v for k, v in bc.items() if not isinstance(v, list)})
for r in bc.get('partially_covered', []):
    if want and not any(w in r['function'] for w in want): continue
    print(f"{r['executed']:4d}/{r['of']:<4d} {r['function'][:120]}  missing {r['not_executed'][:10]}")
if not want:
    print('never called:', len(bc.get('project_functions_never_called', [])))
else:
    for n in bc.get('project_functions_never_called', []):
        if any(w in n for w in want): print('never called:', n[:140])
