// C12 — the vector kernels equal their mathematical definition below and above the parallelisation threshold, for
// every thread count.  This translation unit is compiled WITH -fopenmp for the engine (the kernels are header templates,
// so their parallel regions live here); the engine runs each region for T concrete threads with libomp's static schedule.
#include "vharness.h"
#include "LinearAlgebra/vector.h"
#include "LinearAlgebra/vector_operations.h"
#include <cmath>

static double conc(int i, int salt) { return 0.125 * (double)(((i * 7 + salt * 13) % 17) - 8); }
// entry i is symbolic when it sits on one of `nsym` spread positions (first, last, around the T-way chunk borders)
static bool is_sym_pos(int i, int n, int nsym)
{
    if (n <= 64) return nsym >= 24 ? true : (i == 0 || i == n - 1 || i == n / 2);
    const int marks[] = {0, 1, n - 1, n - 2, n / 2, n / 2 - 1, n / 3, n / 3 + 1, (2 * n) / 3, (2 * n) / 3 + 1, n / 4, n / 4 + 1, (3 * n) / 4, (3 * n) / 4 - 1,
                         n / 4 - 1, n / 3 - 1, 2500, 2501, 3333, 3334, 5000, 5001, 6667, 7500};
    for (int k = 0; k < nsym && k < 24; k++) if (marks[k] == i) return true;
    return false;
}
static void fill(Vector<double>& v, const char* fam, int n, int nsym, int salt)
{
    for (int i = 0; i < n; i++) v[i] = is_sym_pos(i, n, nsym) ? vsym(fam, i, 0) : conc(i, salt);
}

// a: n, threads, kernel
VENTRY(h_kernel)
{
    const int n = a[0], T = a[1], kernel = a[2];
    vset_threads(T);
    Vector<double> x(n), y(n);
    const int nsym = (kernel == 7) ? 3 : 24;
    std::vector<char> sympos(n);
    for (int i = 0; i < n; i++) sympos[i] = is_sym_pos(i, n, nsym);
    fill(x, "x", n, nsym, 1);
    fill(y, "y", n, (kernel == 5) ? 6 : nsym, 2);
    std::vector<double> x0(n), y0(n);
    for (int i = 0; i < n; i++) { x0[i] = x[i]; y0[i] = y[i]; }
    const double alpha = vsym("alpha", 0, 0), beta = vsym("beta", 0, 0);
    vreach("inputs-built");
    switch (kernel) {
    case 0: { assign(x, alpha); for (int i = 0; i < n; i++) vcheck_eq(x[i], alpha, "assign", i); break; }
    case 1: { add(x, y); for (int i = 0; i < n; i++) vcheck_eq(x[i], x0[i] + y0[i], "add", i); break; }
    case 2: { subtract(x, y); for (int i = 0; i < n; i++) vcheck_eq(x[i], x0[i] - y0[i], "subtract", i); break; }
    case 3: { linear_combination(x, alpha, y, beta); for (int i = 0; i < n; i++) vcheck_eq(x[i], alpha * x0[i] + beta * y0[i], "linear_combination", i); break; }
    case 4: { multiply(x, alpha); for (int i = 0; i < n; i++) vcheck_eq(x[i], x0[i] * alpha, "multiply", i); break; }
    case 5: { double d = dot_product(x, y); double s = 0.0; for (int i = n - 1; i >= 0; i--) s += x0[i] * y0[i]; vcheck_eq(d, s, "dot_product", 0); break; }
    case 6: { double d = l2_norm_squared(x); double s = 0.0; for (int i = n - 1; i >= 0; i--) s += x0[i] * x0[i]; vcheck_eq(d, s, "l2_norm_squared", 0); break; }
    case 7: {
        double d = infinity_norm(x);
        double mconc = 0.0;   // maximum over the concrete entries, computed here
        double gap = 1.0;   // product of (d - |x_i|): zero iff the norm is attained at one of the entries
        int k = 0;
        for (int i = 0; i < n; i++) {
            if (sympos[i]) { vcheck_le(fabs(x0[i]), d, "infinity_norm-is-an-upper-bound", k++); gap = gap * (d - fabs(x0[i])); }
            else mconc = fmax(mconc, fabs(x0[i]));
        }
        vcheck_le(mconc, d, "infinity_norm-bounds-the-concrete-entries", 0);
        vcheck_eq(gap * (d - mconc), 0.0, "infinity_norm-is-attained", 0);
        break;
    }
    case 8: { double d = l1_norm(x); double s = 0.0; for (int i = n - 1; i >= 0; i--) s += fabs(x0[i]); vcheck_eq(d, s, "l1_norm", 0); break; }
    case 9: { Vector<double> c(x); for (int i = 0; i < n; i++) vcheck_eq(c[i], x0[i], "copy-construct", i); Vector<double> e(n); e = y; for (int i = 0; i < n; i++) vcheck_eq(e[i], y0[i], "copy-assign", i); break; }
    case 10: { add(x, y, a[3]); for (int i = 0; i < n; i++) vcheck_eq(x[i], x0[i] + y0[i], "add(threshold)", i); break; }
    }
    vreach("kernel-done");
}
