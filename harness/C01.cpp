// C01 (second sentence) — whenever solve() stops before the iteration limit, the residual recomputed independently from
// the returned solution and the problem data meets the tolerance that fired.
// The six cycle functions are NOT the repository's: they are replaced here (same definitions in the engine and in the
// native replay build) by "write arbitrary new values into the iterate and arbitrary junk into the scratch vector":
// the stop test has to be right whatever a cycle does.
#include "vstate.h"
#include "Residual/ResidualGive/residualGive.h"
#include "Residual/ResidualTake/residualTake.h"

static int g_cycle_calls = 0;
static void arbitrary_cycle(Vector<double>& solution, Vector<double>& residual)
{
    g_cycle_calls++;
    for (int i = 0; i < solution.size(); i++) { solution[i] = vsym("iterate", i, g_cycle_calls); residual[i] = vsym("junk", i, g_cycle_calls); }
}
void GMGPolar::multigrid_V_Cycle(const int, Vector<double>& s, Vector<double>&, Vector<double>& r) { arbitrary_cycle(s, r); }
void GMGPolar::multigrid_W_Cycle(const int, Vector<double>& s, Vector<double>&, Vector<double>& r) { arbitrary_cycle(s, r); }
void GMGPolar::multigrid_F_Cycle(const int, Vector<double>& s, Vector<double>&, Vector<double>& r) { arbitrary_cycle(s, r); }
void GMGPolar::implicitlyExtrapolatedMultigrid_V_Cycle(const int, Vector<double>& s, Vector<double>&, Vector<double>& r) { arbitrary_cycle(s, r); }
void GMGPolar::implicitlyExtrapolatedMultigrid_W_Cycle(const int, Vector<double>& s, Vector<double>&, Vector<double>& r) { arbitrary_cycle(s, r); }
void GMGPolar::implicitlyExtrapolatedMultigrid_F_Cycle(const int, Vector<double>& s, Vector<double>&, Vector<double>& r) { arbitrary_cycle(s, r); }

// the documented (extrapolated) residual of an iterate u, computed with operators built here (other strategy)
static void independent_residual(GMGPolar* g, const VConfig& c, const Vector<double>& u, std::vector<double>& out)
{
    const DomainGeometry& geo = *g->domain_geometry_;
    const DensityProfileCoefficients& co = *g->density_profile_coefficients_;
    Level& L0 = g->levels_[0];
    const PolarGrid& fg = L0.grid();
    const int n = fg.numberOfNodes();
    std::unique_ptr<Residual> R0, R1;
    auto mk = [&](Level& L) -> std::unique_ptr<Residual> {
        if (c.strategy == 1) return std::make_unique<ResidualTake>(L.grid(), L.levelCache(), geo, co, c.dirbc != 0, 1);
        return std::make_unique<ResidualGive>(L.grid(), L.levelCache(), geo, co, c.dirbc != 0, 1);
    };
    R0 = mk(L0);
    Vector<double> r(n);
    R0->computeResidual(r, L0.rhs(), u);
    out.resize(n);
    if (c.extrapolation == 0) { for (int i = 0; i < n; i++) out[i] = r[i]; return; }
    Level& L1 = g->levels_[1];
    const PolarGrid& cg = L1.grid();
    const int n1 = cg.numberOfNodes();
    R1 = mk(L1);
    Vector<double> uc(n1), rc(n1);
    for (int ir = 0; ir < cg.nr(); ir++) for (int it = 0; it < cg.ntheta(); it++) uc[cg.index(ir, it)] = u[fg.index(2 * ir, 2 * it)];   // injection
    R1->computeResidual(rc, L1.rhs(), uc);
    for (int ir = 0; ir < fg.nr(); ir++) for (int it = 0; it < fg.ntheta(); it++) {
        const int i = fg.index(ir, it);
        if ((ir & 1) || (it & 1)) out[i] = 4.0 / 3.0 * r[i];
        else out[i] = (4.0 * r[i] - rc[cg.index(ir / 2, it / 2)]) / 3.0;
    }
}
static double norm_of(const std::vector<double>& r, int type)
{
    if (type == 2) { double m = 0.0; for (double v : r) m = fmax(m, fabs(v)); return m; }
    double s = 0.0;
    for (double v : r) s += v * v;
    if (type == 0) return sqrt(s);
    return sqrt(s) / sqrt((double)r.size());
}

// a: extrapolation, strategy, DirBC, norm type, max_iterations, tolerance mode (0 both, 1 abs only, 2 rel only), cycle, geometry, profile
VENTRY(h_stop_true)
{
    alignas(GMGPolar) static unsigned char buf[sizeof(GMGPolar)];
    VConfig c;
    c.extrapolation = a[0]; c.strategy = a[1]; c.dirbc = a[2]; c.norm = a[3]; c.max_iterations = a[4]; c.cycle = a[6]; c.geometry = a[7]; c.profile = a[8];
    GMGPolar* g = vmake_state(buf, c);
    g->setup();
    Level& L0 = g->levels_[0];
    const int n = L0.grid().numberOfNodes();
    for (int i = 0; i < n; i++) L0.rhs()[i] = vsym("f", i, 0);
    if (c.extrapolation != 0) { Level& L1 = g->levels_[1]; for (int i = 0; i < L1.grid().numberOfNodes(); i++) L1.rhs()[i] = vsym("fc", i, 0); }
    const int tolmode = a[5];
    double tolA = 0.0, tolR = 0.0;
    if (tolmode != 2) { tolA = vsym("tolA", 0, 0); vassume_nonneg(tolA); g->absolute_tolerance_ = tolA; } else g->absolute_tolerance_ = std::nullopt;
    if (tolmode != 1) { tolR = vsym("tolR", 0, 0); vassume_nonneg(tolR); g->relative_tolerance_ = tolR; } else g->relative_tolerance_ = std::nullopt;
    g_cycle_calls = 0;
    vreach("setup-done");
    g->solve();
    vreach("solve-returned");
    const int its = g->number_of_iterations_;
    vout_int(its, "iterations", 0);
    if (its >= c.max_iterations) return;     // the budget was used up: nothing is claimed
    vreach("stopped-early");
    // independent recomputation: residual of the returned solution and of the zero start vector
    std::vector<double> r, r0;
    independent_residual(g, c, L0.solution(), r);
    Vector<double> zero(n);
    for (int i = 0; i < n; i++) zero[i] = 0.0;
    independent_residual(g, c, zero, r0);
    const double nr = norm_of(r, c.norm), nr0 = norm_of(r0, c.norm);
    bool ok = false;
    if (tolmode != 2) ok = ok | (nr <= tolA);
    if (tolmode != 1) ok = ok | (its == 0 ? (1.0 <= tolR) : (nr / nr0 <= tolR));
    vcheck_true(ok, "reported-stop-is-true", its);
}
