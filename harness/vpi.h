// C19: the constant pi as an opaque value.  Force-included (-include) in front of every translation unit of the C19
// build, after <cmath>, so that the shipped formulas' M_PI becomes a call the engine answers with the symbol `pi`
// (natively: the double M_PI).  Without this clang folds 8.0 * (M_PI * M_PI) into one rounded double and the formal
// identity "source term = -div(alpha grad u) + beta u" is false by one rounding error of that constant.
#pragma once
#include <cmath>
#ifdef M_PI
#undef M_PI
#endif
extern "C" double vpi(void);
#define M_PI (vpi())
