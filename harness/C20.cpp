// C20 — every option combination is either rejected cleanly or runs setup() and solve() without undefined behaviour,
// and every statistic reported afterwards is a well-defined function of that solve.
// Oracle: the engine's memory / initialisation model and the library's own assertions (assert-enabled build).
#include "vstate.h"

void GMGPolar::selectTestCase() {}   // src/GMGPolar/select_test_case.cpp is not linked (it pulls in every input-function class)

// a: extrapolation, strategy, cache flags (bit0 profile, bit1 geometry), DirBC, cycle, FMG, FMG cycle, FMG iterations,
//    nu1, nu2, max_levels, tolerance mode (0 both, 1 abs, 2 rel, 3 none), max_iterations, threads, exact solution, norm
static VConfig tuple(const int* a)
{
    VConfig c;
    c.extrapolation = a[0]; c.strategy = a[1]; c.cache_profile = (a[2] & 1) != 0; c.cache_geometry = (a[2] & 2) != 0; c.dirbc = a[3];
    c.cycle = a[4]; c.fmg = a[5]; c.fmg_cycle = a[6]; c.fmg_iterations = a[7]; c.nu1 = a[8]; c.nu2 = a[9]; c.max_levels = a[10];
    c.max_iterations = a[12]; c.threads = a[13]; c.with_exact = a[14] != 0; c.norm = a[15];
    c.geometry = 1; c.profile = 3;
    return c;
}
VENTRY(h_run)
{
    VConfig c = tuple(a);
    GMGPolar* g = vmake_state(vstate_storage(), c);
    const int tolmode = a[11];
    if (tolmode == 0 || tolmode == 1) { double t = vsym("tolA", 0, 0); vassume_nonneg(t); g->absolute_tolerance_ = t; } else g->absolute_tolerance_ = std::nullopt;
    if (tolmode == 0 || tolmode == 2) { double t = vsym("tolR", 0, 0); vassume_nonneg(t); g->relative_tolerance_ = t; } else g->relative_tolerance_ = std::nullopt;
    g->setup();
    vreach("setup-returned");
    Level& L0 = g->levels_[0];
    for (int i = 0; i < L0.grid().numberOfNodes(); i++) L0.rhs()[i] = vsym("f", i, 0);
    g->solve();
    vreach("solve-returned");
    // everything the API reports afterwards, through the real accessors
    vout_int(g->numberOfIterations(), "numberOfIterations", 0);
    vout(g->meanResidualReductionFactor(), "meanResidualReductionFactor", 0);
    std::optional<double> e2 = g->exactErrorWeightedEuclidean(), ei = g->exactErrorInfinity();
    if (e2.has_value()) vout(e2.value(), "exactErrorWeightedEuclidean", 0);
    if (ei.has_value()) vout(ei.value(), "exactErrorInfinity", 0);
    const Vector<double>& sol = g->solution();
    for (int i = 0; i < sol.size(); i++) vout(sol[i], "solution", i);
    vout_int(g->grid().nr(), "grid-nr", 0);
}

// option values that must be rejected: a[16] selects the invalid setting on top of an otherwise valid tuple
VENTRY(h_reject)
{
    alignas(GMGPolar) static unsigned char buf[sizeof(GMGPolar)];
    VConfig c = tuple(a);
    GMGPolar* g = vmake_state(buf, c);
    if (a[16] != 5) { g->absolute_tolerance_ = std::nullopt; g->relative_tolerance_ = std::nullopt; }   // no early stop: the cycle (and its option checks) is reached; case 5 needs the norm computation instead
    switch (a[16]) {
    case 0: g->stencil_distribution_method_ = StencilDistributionMethod::CPU_TAKE; g->cache_domain_geometry_ = false; break;
    case 1: g->stencil_distribution_method_ = StencilDistributionMethod::CPU_TAKE; g->cache_density_profile_coefficients_ = false; break;
    case 2: g->nr_exp_ = 2; g->ntheta_exp_ = 2; break;                       // 5 x 4: cannot be coarsened to two levels
    case 3: g->nr_exp_ = 3; g->ntheta_exp_ = 1; break;                       // ntheta = 2
    case 4: g->multigrid_cycle_ = static_cast<MultigridCycleType>(7); break;
    case 5: g->residual_norm_type_ = static_cast<ResidualNormType>(5); break;
    case 6: g->stencil_distribution_method_ = static_cast<StencilDistributionMethod>(4); break;
    case 7: g->FMG_ = true; g->FMG_cycle_ = static_cast<MultigridCycleType>(3); g->FMG_iterations_ = 1; break;
    case 8: g->extrapolation_ = static_cast<ExtrapolationType>(9); break;
    case 9: g->max_levels_ = 1; break;
    }
    g->setup();
    vreach("setup-returned");
    Level& L0 = g->levels_[0];
    for (int i = 0; i < L0.grid().numberOfNodes(); i++) L0.rhs()[i] = vsym("f", i, 0);
    g->solve();
    vreach("solve-returned");
}

// option validation of the command-line front end with the text->value conversion abstracted away:
// cmdline::parser::get<T>() returns an ARBITRARY value of type T (engine stub); every path must either throw or leave
// each enum field inside its enumerators.   a[0]: 0 parseMultigrid, 1 parseGeneral, 2 parseGeometry
VENTRY(h_parse)
{
    alignas(GMGPolar) static unsigned char buf[sizeof(GMGPolar)];
    VConfig c;
    GMGPolar* g = vmake_state(buf, c);
    if (a[0] == 0) {
        g->parseMultigrid();
        const int cyc = (int)g->multigrid_cycle_, fc = (int)g->FMG_cycle_, ex = (int)g->extrapolation_, nt = (int)g->residual_norm_type_;
        vcheck_true(cyc >= 0 && cyc <= 2, "multigridCycle-in-range", 0);
        vcheck_true(fc >= 0 && fc <= 2, "FMG_cycle-in-range", 0);
        vcheck_true(ex >= 0 && ex <= 3, "extrapolation-in-range", 0);
        vcheck_true(nt >= 0 && nt <= 2, "residualNormType-in-range", 0);
        if (g->absolute_tolerance_.has_value()) vcheck_le(0.0, g->absolute_tolerance_.value(), "absolute-tolerance-nonnegative-when-enabled", 0);
        if (g->relative_tolerance_.has_value()) vcheck_le(0.0, g->relative_tolerance_.value(), "relative-tolerance-nonnegative-when-enabled", 0);
    }
    else if (a[0] == 1) {
        g->parseGeneral();
        const int sd = (int)g->stencil_distribution_method_;
        vcheck_true(sd >= 0 && sd <= 1, "stencilDistributionMethod-in-range", 0);
    }
    else {
        g->parseGeometry();
        vcheck_true((int)g->alpha_ >= 0 && (int)g->alpha_ <= 3, "alpha_coeff-in-range", 0);
        vcheck_true((int)g->problem_ >= 0 && (int)g->problem_ <= 3, "problem-in-range", 0);
        vcheck_true((int)g->geometry_ >= 0 && (int)g->geometry_ <= 3, "geometry-in-range", 0);
        vcheck_true((int)g->beta_ >= 0 && (int)g->beta_ <= 1, "beta_coeff-in-range", 0);
    }
    vreach("parsed");
}
