// C10 — each multigrid cycle is a consistent correction scheme.
#include "vstate.h"
#include "Residual/ResidualGive/residualGive.h"
#include "Residual/ResidualTake/residualTake.h"
#include "DirectSolver/DirectSolverGiveCustomLU/directSolverGiveCustomLU.h"
#include "DirectSolver/DirectSolverTakeCustomLU/directSolverTakeCustomLU.h"

static void run_cycle(GMGPolar* g, int cycle, bool ex)
{
    Level& L0 = g->levels_[0];
    if (!ex) {
        if (cycle == 0) g->multigrid_V_Cycle(0, L0.solution(), L0.rhs(), L0.residual());
        else if (cycle == 1) g->multigrid_W_Cycle(0, L0.solution(), L0.rhs(), L0.residual());
        else g->multigrid_F_Cycle(0, L0.solution(), L0.rhs(), L0.residual());
    }
    else {
        if (cycle == 0) g->implicitlyExtrapolatedMultigrid_V_Cycle(0, L0.solution(), L0.rhs(), L0.residual());
        else if (cycle == 1) g->implicitlyExtrapolatedMultigrid_W_Cycle(0, L0.solution(), L0.rhs(), L0.residual());
        else g->implicitlyExtrapolatedMultigrid_F_Cycle(0, L0.solution(), L0.rhs(), L0.residual());
    }
}
static void stale(GMGPolar* g, int tagoff)
{
    // every work vector of every level holds arbitrary old data
    for (size_t l = 0; l < g->levels_.size(); l++) {
        Level& L = g->levels_[l];
        const int n = L.grid().numberOfNodes();
        for (int i = 0; i < n; i++) {
            L.residual()[i] = vsym("stale", i, 10 * (int)l + 1 + tagoff);
            if (L.error_correction().size() == n) L.error_correction()[i] = vsym("stale", i, 10 * (int)l + 2 + tagoff);
            if (l > 0 && L.solution().size() == n) L.solution()[i] = vsym("stale", i, 10 * (int)l + 3 + tagoff);
        }
    }
}
static VConfig config(const int* a)
{
    VConfig c;
    c.cycle = a[0]; c.extrapolation = a[1]; c.strategy = a[2]; c.dirbc = a[3]; c.nu1 = a[4]; c.nu2 = a[5];
    c.nr_exp = a[6] ? 4 : 3; c.ntheta_exp = a[6] ? 4 : 3; c.geometry = a[7]; c.profile = a[8];
    return c;
}

// 1. cycle(u*) = u*          a: cycle, extrapolation, strategy, DirBC, nu1, nu2, three-levels, geometry, profile, full-grid-smoothing
VENTRY(h_fixed_point)
{
    alignas(GMGPolar) static unsigned char buf[sizeof(GMGPolar)];
    VConfig c = config(a);
    GMGPolar* g = vmake_state(buf, c);
    g->setup();
    const bool ex = c.extrapolation != 0;
    if (c.extrapolation == 3) g->full_grid_smoothing_ = a[9] != 0;   // COMBINED: both smoothers exist, either may be active
    Level& L0 = g->levels_[0];
    const int n = L0.grid().numberOfNodes();
    Vector<double> u(n), f(n);
    for (int i = 0; i < n; i++) u[i] = vsym("u", i, 0);
    vlevel_applyA(L0, u, f);
    stale(g, 0);
    for (int i = 0; i < n; i++) { L0.rhs()[i] = f[i]; L0.solution()[i] = u[i]; }
    if (ex) {   // the exact solution of the EXTRAPOLATED system: f_c = A_c inject(u)
        Level& L1 = g->levels_[1];
        const int n1 = L1.grid().numberOfNodes();
        Vector<double> uc(n1), fc(n1);
        g->injection(0, uc, u);
        vlevel_applyA(L1, uc, fc);
        for (int i = 0; i < n1; i++) L1.rhs()[i] = fc[i];
    }
    vreach("setup-done");
    run_cycle(g, c.cycle, ex);
    vreach("cycle-done");
    for (int i = 0; i < n; i++) vcheck_eq(L0.solution()[i], u[i], "cycle(exact-solution)=exact-solution", i);
}

// 2./3. without smoothing a two-level cycle is the algebraic coarse-grid correction assembled from separately constructed
// public operators; the result does not depend on what the scratch vectors held.   a: as above (nu1 = nu2 = 0 enforced)
VENTRY(h_coarse_correction)
{
    alignas(GMGPolar) static unsigned char buf[sizeof(GMGPolar)];
    VConfig c = config(a);
    c.nu1 = a[4]; c.nu2 = a[5];
    GMGPolar* g = vmake_state(buf, c);
    g->setup();
    const bool ex = c.extrapolation != 0;
    if (c.extrapolation == 3) g->full_grid_smoothing_ = a[9] != 0;   // COMBINED: both smoothers exist, either may be active
    Level &L0 = g->levels_[0], &L1 = g->levels_[1];
    const int n = L0.grid().numberOfNodes(), n1 = L1.grid().numberOfNodes();
    Vector<double> u(n), f(n), fc(n1);
    for (int i = 0; i < n; i++) { u[i] = vsym("u", i, 0); f[i] = vsym("f", i, 0); }
    for (int i = 0; i < n1; i++) fc[i] = vsym("fc", i, 0);
    stale(g, 0);
    for (int i = 0; i < n; i++) { L0.rhs()[i] = f[i]; L0.solution()[i] = u[i]; }
    if (ex) for (int i = 0; i < n1; i++) L1.rhs()[i] = fc[i];
    vreach("setup-done");
    run_cycle(g, c.cycle, ex);
    vreach("cycle-done");
    for (int i = 0; i < n; i++) vcheck_indep(L0.solution()[i], "stale", "cycle-independent-of-scratch-contents", i);
    if (c.nu1 == 0 && c.nu2 == 0 && g->levels_.size() == 2) {
        // oracle from separately constructed operator objects of the OTHER strategy
        const DomainGeometry& geo = *g->domain_geometry_;
        const DensityProfileCoefficients& co = *g->density_profile_coefficients_;
        std::vector<int> thr{1, 1};
        Interpolation I(thr, c.dirbc != 0);
        std::unique_ptr<Residual> R0, R1; std::unique_ptr<DirectSolver> D;
        if (c.strategy == 1) {
            R0 = std::make_unique<ResidualTake>(L0.grid(), L0.levelCache(), geo, co, c.dirbc != 0, 1);
            R1 = std::make_unique<ResidualTake>(L1.grid(), L1.levelCache(), geo, co, c.dirbc != 0, 1);
            D  = std::make_unique<DirectSolverTakeCustomLU>(L1.grid(), L1.levelCache(), geo, co, c.dirbc != 0, 1);
        }
        else {
            R0 = std::make_unique<ResidualGive>(L0.grid(), L0.levelCache(), geo, co, c.dirbc != 0, 1);
            R1 = std::make_unique<ResidualGive>(L1.grid(), L1.levelCache(), geo, co, c.dirbc != 0, 1);
            D  = std::make_unique<DirectSolverGiveCustomLU>(L1.grid(), L1.levelCache(), geo, co, c.dirbc != 0, 1);
        }
        Vector<double> r(n), rc(n1), corr(n);
        R0->computeResidual(r, f, u);
        if (!ex) I.applyRestriction(L0, L1, rc, r);
        else {
            Vector<double> uc(n1), r1(n1);
            I.applyExtrapolatedRestriction(L0, L1, rc, r);
            I.applyInjection(L0, L1, uc, u);
            R1->computeResidual(r1, fc, uc);
            for (int i = 0; i < n1; i++) rc[i] = 4.0 / 3.0 * rc[i] - 1.0 / 3.0 * r1[i];
        }
        D->solveInPlace(rc);
        if (!ex) I.applyProlongation(L1, L0, corr, rc); else I.applyExtrapolatedProlongation(L1, L0, corr, rc);
        for (int i = 0; i < n; i++) vcheck_eq(L0.solution()[i], u[i] + corr[i], "cycle(nu=0)=u+P*Ac^-1*R(f-Au)", i);
    }
    if (c.nu1 == 0 && c.nu2 == 0 && g->levels_.size() == 3) {
        // more than two levels: the recursive branch.  u + P M (R (f - A u)) with the SAME transfer operators and coarse right-hand
        // side as on two levels, where M is what the cycle type prescribes on the next level from a zero start (V: one V cycle;
        // W: two W cycles; F: an F cycle, then a V cycle), carried out by the plain cycles of a second solver object.
        alignas(GMGPolar) static unsigned char buf2[sizeof(GMGPolar)];
        GMGPolar* h = vmake_state(buf2, c);
        h->setup();
        const DomainGeometry& geo = *g->domain_geometry_;
        const DensityProfileCoefficients& co = *g->density_profile_coefficients_;
        std::vector<int> thr{1, 1, 1};
        Interpolation I(thr, c.dirbc != 0);
        std::unique_ptr<Residual> R0, R1;
        // (same strategy as the solver object here: the cross-strategy comparison is the two-level job's; with three levels the
        //  obligations are meant to be discharged structurally)
        if (c.strategy == 0) {
            R0 = std::make_unique<ResidualTake>(L0.grid(), L0.levelCache(), geo, co, c.dirbc != 0, 1);
            R1 = std::make_unique<ResidualTake>(L1.grid(), L1.levelCache(), geo, co, c.dirbc != 0, 1);
        }
        else {
            R0 = std::make_unique<ResidualGive>(L0.grid(), L0.levelCache(), geo, co, c.dirbc != 0, 1);
            R1 = std::make_unique<ResidualGive>(L1.grid(), L1.levelCache(), geo, co, c.dirbc != 0, 1);
        }
        Vector<double> r(n), rc(n1), corr(n), e1(n1), scratch(n1);
        R0->computeResidual(r, f, u);
        if (!ex) I.applyRestriction(L0, L1, rc, r);
        else {
            Vector<double> uc(n1), r1(n1);
            I.applyExtrapolatedRestriction(L0, L1, rc, r);
            I.applyInjection(L0, L1, uc, u);
            R1->computeResidual(r1, fc, uc);
            for (int i = 0; i < n1; i++) rc[i] = 4.0 / 3.0 * rc[i] + (-1.0 / 3.0) * r1[i];
        }
        for (int i = 0; i < n1; i++) { e1[i] = 0.0; scratch[i] = 0.0; }
        if (c.cycle == 0) h->multigrid_V_Cycle(1, e1, rc, scratch);
        else if (c.cycle == 1) { h->multigrid_W_Cycle(1, e1, rc, scratch); h->multigrid_W_Cycle(1, e1, rc, scratch); }
        else { h->multigrid_F_Cycle(1, e1, rc, scratch); h->multigrid_V_Cycle(1, e1, rc, scratch); }
        if (!ex) I.applyProlongation(L1, L0, corr, e1); else I.applyExtrapolatedProlongation(L1, L0, corr, e1);
        for (int i = 0; i < n; i++) vcheck_eq(L0.solution()[i], u[i] + corr[i], "cycle(nu=0,3-levels)=u+P*M*R(f-Au)", i);
    }
}

// 4. "started from the exact solution of the extrapolated system the cycle returns it unchanged", with the exact solution in the
// general sense: the EXTRAPOLATED residual 4/3 R_ex(f - A u) - 1/3 (f_c - A_c inject u) vanishes although f != A u.  u and f are
// free, f_c := A_c inject u + 4 R_ex (f - A u) (built with operators constructed here).  Without smoothing every cycle type
// on any number of levels must return u: whatever the coarser levels do, they start from zero with a zero right-hand side.
// a: as above (nu1 = nu2 = 0 enforced)
VENTRY(h_ex_zero_residual)
{
    alignas(GMGPolar) static unsigned char buf[sizeof(GMGPolar)];
    VConfig c = config(a);
    c.nu1 = 0; c.nu2 = 0;
    GMGPolar* g = vmake_state(buf, c);
    g->setup();
    if (c.extrapolation == 3) g->full_grid_smoothing_ = a[9] != 0;
    Level &L0 = g->levels_[0], &L1 = g->levels_[1];
    const int n = L0.grid().numberOfNodes(), n1 = L1.grid().numberOfNodes();
    const DomainGeometry& geo = *g->domain_geometry_;
    const DensityProfileCoefficients& co = *g->density_profile_coefficients_;
    std::vector<int> thr(g->levels_.size(), 1);
    Interpolation I(thr, c.dirbc != 0);
    std::unique_ptr<Residual> R0, R1;
    if (c.strategy == 1) {
        R0 = std::make_unique<ResidualTake>(L0.grid(), L0.levelCache(), geo, co, c.dirbc != 0, 1);
        R1 = std::make_unique<ResidualTake>(L1.grid(), L1.levelCache(), geo, co, c.dirbc != 0, 1);
    }
    else {
        R0 = std::make_unique<ResidualGive>(L0.grid(), L0.levelCache(), geo, co, c.dirbc != 0, 1);
        R1 = std::make_unique<ResidualGive>(L1.grid(), L1.levelCache(), geo, co, c.dirbc != 0, 1);
    }
    Vector<double> u(n), f(n), w(n), rw(n1), uc(n1), zero1(n1), acu(n1), fc(n1);
    for (int i = 0; i < n; i++) { u[i] = vsym("u", i, 0); f[i] = vsym("f", i, 0); }
    R0->computeResidual(w, f, u);                         // w = f - A u
    I.applyExtrapolatedRestriction(L0, L1, rw, w);
    I.applyInjection(L0, L1, uc, u);
    for (int i = 0; i < n1; i++) zero1[i] = 0.0;
    R1->computeResidual(acu, zero1, uc);                  // acu = -A_c inject u
    for (int i = 0; i < n1; i++) fc[i] = 4.0 * rw[i] - acu[i];
    stale(g, 0);
    for (int i = 0; i < n; i++) { L0.rhs()[i] = f[i]; L0.solution()[i] = u[i]; }
    for (int i = 0; i < n1; i++) L1.rhs()[i] = fc[i];
    vreach("setup-done");
    run_cycle(g, c.cycle, true);
    vreach("cycle-done");
    for (int i = 0; i < n; i++) vcheck_eq(L0.solution()[i], u[i], "cycle(zero-extrapolated-residual)=identity", i);
}
