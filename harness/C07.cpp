// C07 — extrapolated smoothing relaxes fine-only nodes and never moves coarse nodes.
#include "vops.h"

// a: nr, nt, nC, DirBC, strategy, threads, symbolic coefficients, variant
VENTRY(h_exsweep)
{
    VLevelBox b;
    const int strat = a[4], T = a[5];
    vbuild_level(b, a[0], a[1], a[2], a[3] != 0, a[6] != 0, a[7]);
    const PolarGrid& g = b.L->grid();
    const int n = g.numberOfNodes(), nr = b.nr, nt = b.nt, nC = b.nC;
    auto Rother = vresidual(b, 1 - strat);
    auto S      = vexsmoother(b, strat, T);
    auto S2     = vexsmoother(b, 1 - strat, 1);
    vreach("operators-built");
    Vector<double> u(n), f(n), x(n), tmp(n);
    for (int i = 0; i < n; i++) u[i] = vsym("u", i, 0);
    vapplyA(*Rother, n, u, f);
    for (int i = 0; i < n; i++) { x[i] = u[i]; tmp[i] = vsym("stale", i, 0); }
    S->extrapolatedSmoothing(x, f, tmp);
    for (int i = 0; i < n; i++) vcheck_eq(x[i], u[i], "sweep(exact-solution)=exact-solution", i);
    Vector<double> x0(n), rhs(n), y(n), r(n), tmp2(n);
    for (int i = 0; i < n; i++) { x0[i] = vsym("x", i, 0); rhs[i] = vsym("f", i, 0); x[i] = x0[i]; y[i] = x0[i]; tmp[i] = vsym("stale", i, 1); tmp2[i] = 0.0; }
    S->extrapolatedSmoothing(x, rhs, tmp);
    S2->extrapolatedSmoothing(y, rhs, tmp2);
    Rother->computeResidual(r, rhs, x);
    vreach("sweep-done");
    for (int ir = 0; ir < nr; ir++)
        for (int it = 0; it < nt; it++) {
            const int i = g.index(ir, it);
            const bool coarse = !(ir & 1) && !(it & 1);
            vcheck_eq(x[i], y[i], "give-sweep=take-sweep", i);
            vcheck_indep(x[i], "stale", "result-independent-of-temp-contents", i);
            if (coarse) { vcheck_bits_eq(x[i], x0[i], "coarse-node-bitwise-unchanged", i); continue; }
            if (b.is_dirichlet(ir)) { vcheck_eq(x[i], rhs[i], "dirichlet-node=boundary-data", i); continue; }
            const bool last_colour = (ir < nC) ? vcircle_is_white(nC, ir) : ((it & 1) != 0);
            if (last_colour) vcheck_eq(r[i], 0.0, "residual-zero-on-last-colour(fine-only-nodes)", i);
        }
}
