// C04 — the coarse-grid direct solve inverts exactly the operator the residual applies.
#include "vops.h"

// a: nr, nt, nC, DirBC, strategy, threads, variant
VENTRY(h_solve)
{
    VLevelBox b;
    const int strat = a[4], T = a[5];
    vbuild_level(b, a[0], a[1], a[2], a[3] != 0, false, a[6]);
    const PolarGrid& g = b.L->grid();
    const int n = g.numberOfNodes();
    auto D  = vdirect(b, strat, T);
    auto D2 = vdirect(b, 1 - strat, 1);
    auto R  = vresidual(b, 1 - strat);
    vreach("factorised");
    for (int k = 0; k < 2; k++) {       // two right-hand sides one after another on the same factorisation
        Vector<double> rhs(n), x(n), y(n), r(n);
        for (int i = 0; i < n; i++) { rhs[i] = vsym("b", i, k); x[i] = rhs[i]; y[i] = rhs[i]; }
        D->solveInPlace(x);
        D2->solveInPlace(y);
        R->computeResidual(r, rhs, x);
        for (int i = 0; i < n; i++) {
            vcheck_eq(r[i], 0.0, "residual(b,solve(b))=0", i + 1000 * k);
            vcheck_eq(x[i], y[i], "give-solve=take-solve", i + 1000 * k);
        }
    }
    vreach("solved");
}

// the assembled matrix (before factorisation) against the operator, row by row, for ALL coefficients and spacings.
// a: nr, nt, nC, DirBC, strategy, threads
VENTRY(h_matrix)
{
    VLevelBox b;
    const int strat = a[4], T = a[5];
    vbuild_level(b, a[0], a[1], a[2], a[3] != 0, true, 0);
    const PolarGrid& g = b.L->grid();
    const int n = g.numberOfNodes();
    auto R = vresidual(b, 1 - strat);
    SparseMatrixCSR<double> M;
    if (strat == 1) { DirectSolverGiveCustomLU d(g, b.L->levelCache(), b.geo, b.co, b.dirbc, T); M = d.buildSolverMatrix(); }
    else { DirectSolverTakeCustomLU d(g, b.L->levelCache(), b.geo, b.co, b.dirbc, T); M = d.buildSolverMatrix(); }
    vreach("assembled");
    vcheck_true(M.rows() == n && M.columns() == n, "matrix-shape", 0);
    // M x = A x for every x (the custom-LU solvers keep the unsymmetric system: Dirichlet rows are the identity,
    // interior rows keep their Dirichlet columns)
    Vector<double> x(n), Ax(n);
    for (int ir = 0; ir < b.nr; ir++) for (int it = 0; it < b.nt; it++) x[g.index(ir, it)] = vsym("x", ir, it);
    vapplyA(*R, n, x, Ax);
    for (int ir = 0; ir < b.nr; ir++) for (int it = 0; it < b.nt; it++) {
        const int i = g.index(ir, it);
        double s = 0.0;
        for (int q = 0; q < M.row_nz_size(i); q++) {
            const int c = M.row_nz_index(i, q);
            vcheck_true(c >= 0 && c < n, "column-index-in-range", i);
            s += M.row_nz_entry(i, q) * x[c];
        }
        if (b.is_dirichlet(ir)) vcheck_eq(s, x[i], "dirichlet-row=identity", i);
        vcheck_eq(s, Ax[i], "matrix-row=operator-row", i);
    }
}
