// A GMGPolar object state built directly (DESIGN 3.3): raw storage, placement-constructed members, option fields
// written one by one.  The constructor is not used because it runs the cmdline library (std::map<std::string,...>,
// std::ostringstream: no IR).  Everything setup()/solve() touch is initialised; options may be concrete or symbolic.
#pragma once
#include "vgrid.h"
#include "InputFunctions/DomainGeometry/circularGeometry.h"
#include "InputFunctions/DomainGeometry/shafranovGeometry.h"
#include "InputFunctions/DomainGeometry/czarnyGeometry.h"
#include "InputFunctions/DensityProfileCoefficients/poissonCoefficients.h"
#include "InputFunctions/DensityProfileCoefficients/sonnendruckerGyroCoefficients.h"
#include "InputFunctions/DensityProfileCoefficients/zoniGyroCoefficients.h"
#include "InputFunctions/DensityProfileCoefficients/zoniShiftedGyroCoefficients.h"
#include <new>

struct VStubSource : SourceTerm {
    double rhs_f(const double& r, const double& t, const double& s, const double& c) const override { return 1.0 + r * c - 0.5 * r * s; }
};
struct VStubBC : BoundaryConditions {
    double u_D(const double& r, const double& t, const double& s, const double& c) const override { return 0.25 + 0.5 * r * c; }
    double u_D_Interior(const double& r, const double& t, const double& s, const double& c) const override { return 0.25 + 0.5 * r * c; }
};
struct VStubExact : ExactSolution {
    double exact_solution(const double& r, const double& t, const double& s, const double& c) const override { return 0.25 + 0.5 * r * c + 0.125 * r * r * s; }
};

struct VConfig {
    int geometry = 1, profile = 3;       // Shafranov + ZoniShiftedGyro
    int nr_exp = 3, ntheta_exp = 3;      // 9 x 8  -> 5 x 4 (two levels); nr_exp = ntheta_exp = 4: 17 x 16 (three levels)
    int dirbc = 0, strategy = 1, extrapolation = 0, cycle = 0;
    int nu1 = 1, nu2 = 1, max_levels = -1, max_iterations = 1, threads = 1;
    int fmg = 0, fmg_iterations = 1, fmg_cycle = 0, norm = 0;
    bool with_exact = false;
    bool cache_profile = true, cache_geometry = true;
};

// storage with indeterminate contents (what `new GMGPolar` gives the members its constructor does not initialise)
inline void* vstate_storage() { return ::operator new(sizeof(GMGPolar)); }

inline GMGPolar* vmake_state(void* buf, const VConfig& c)
{
    GMGPolar* g = reinterpret_cast<GMGPolar*>(buf);
    new (&g->levels_) std::vector<Level>();
    new (&g->threads_per_level_) std::vector<int>();
    new (&g->residual_norms_) std::vector<double>();
    new (&g->exact_errors_) std::vector<std::pair<double, double>>();
    new (&g->interpolation_) std::unique_ptr<Interpolation>();
    const double Rmax = 1.25, kappa = 0.25, delta = 0.25, jump = 0.875;
    const DomainGeometry* geo;
    switch (c.geometry) {
    case 0: geo = new CircularGeometry(Rmax); break;
    case 1: geo = new ShafranovGeometry(Rmax, kappa, delta); break;
    default: geo = new CzarnyGeometry(Rmax, kappa, 1.5); break;
    }
    const DensityProfileCoefficients* co;
    switch (c.profile) {
    case 0: co = new PoissonCoefficients(Rmax, 0.0); break;
    case 1: co = new SonnendruckerGyroCoefficients(Rmax, 0.0); break;
    case 2: co = new ZoniGyroCoefficients(Rmax, 0.0); break;
    default: co = new ZoniShiftedGyroCoefficients(Rmax, jump); break;
    }
    new (&g->domain_geometry_) std::unique_ptr<const DomainGeometry>(geo);
    new (&g->density_profile_coefficients_) std::unique_ptr<const DensityProfileCoefficients>(co);
    new (&g->boundary_conditions_) std::unique_ptr<const BoundaryConditions>(new VStubBC());
    new (&g->source_term_) std::unique_ptr<const SourceTerm>(new VStubSource());
    new (&g->exact_solution_) std::unique_ptr<const ExactSolution>(c.with_exact ? new VStubExact() : nullptr);
    g->R0_ = 0.125; g->Rmax_ = Rmax; g->nr_exp_ = c.nr_exp; g->ntheta_exp_ = c.ntheta_exp; g->anisotropic_factor_ = 0; g->divideBy2_ = 0;
    g->write_grid_file_ = false; g->load_grid_file_ = false; g->DirBC_Interior_ = c.dirbc != 0;
    g->FMG_ = c.fmg != 0; g->FMG_iterations_ = c.fmg_iterations; g->FMG_cycle_ = static_cast<MultigridCycleType>(c.fmg_cycle);
    g->extrapolation_ = static_cast<ExtrapolationType>(c.extrapolation); g->max_levels_ = c.max_levels;
    g->pre_smoothing_steps_ = c.nu1; g->post_smoothing_steps_ = c.nu2;
    g->multigrid_cycle_ = static_cast<MultigridCycleType>(c.cycle); g->max_iterations_ = c.max_iterations;
    g->residual_norm_type_ = static_cast<ResidualNormType>(c.norm);
    new (&g->absolute_tolerance_) std::optional<double>(1e-8);
    new (&g->relative_tolerance_) std::optional<double>(1e-8);
    g->verbose_ = 0; g->paraview_ = false; g->max_omp_threads_ = c.threads; g->thread_reduction_factor_ = 1.0;
    g->stencil_distribution_method_ = static_cast<StencilDistributionMethod>(c.strategy);
    g->cache_density_profile_coefficients_ = c.cache_profile; g->cache_domain_geometry_ = c.cache_geometry;
    g->full_grid_smoothing_ = false;
    // NOT initialised, exactly as by the real constructors: number_of_iterations_, number_of_levels_, mean_residual_reduction_factor_
    return g;
}
// f := A_l u on level l through the level's own residual operator (Dirichlet rows: f_D = u_D)
inline void vlevel_applyA(Level& L, const Vector<double>& u, Vector<double>& f)
{
    const int n = L.grid().numberOfNodes();
    Vector<double> z(n), r(n);
    for (int i = 0; i < n; i++) z[i] = 0.0;
    L.computeResidual(r, z, u);
    for (int i = 0; i < n; i++) f[i] = 0.0 - r[i];
}
