// C05 — the interior operator is symmetric positive definite; the smoothers' line blocks are its diagonal blocks.
#include "vgrid.h"
#include "Residual/ResidualGive/residualGive.h"
#include "Residual/ResidualTake/residualTake.h"
#include "Smoother/SmootherGive/smootherGive.h"
#include "Smoother/SmootherTake/smootherTake.h"

static std::unique_ptr<Residual> make_residual(VLevelBox& b, int strategy, int T = 1)
{
    if (strategy == 1) return std::make_unique<ResidualGive>(b.L->grid(), b.L->levelCache(), b.geo, b.co, b.dirbc, T);
    return std::make_unique<ResidualTake>(b.L->grid(), b.L->levelCache(), b.geo, b.co, b.dirbc, T);
}
// columns of A restricted to the non-Dirichlet unknowns: A e_j = -(residual(0, e_j))
static void columns(VLevelBox& b, Residual& R, std::vector<std::vector<double>>& col)
{
    const PolarGrid& g = b.L->grid();
    const int n = g.numberOfNodes();
    Vector<double> e(n), z(n), r(n);
    for (int i = 0; i < n; i++) z[i] = 0.0;
    col.assign(n, std::vector<double>());
    for (int jr = 0; jr < b.nr; jr++)
        for (int jt = 0; jt < b.nt; jt++) {
            if (b.is_dirichlet(jr)) continue;
            const int j = g.index(jr, jt);
            for (int i = 0; i < n; i++) e[i] = (i == j) ? 1.0 : 0.0;
            R.computeResidual(r, z, e);
            col[j].resize(n);
            for (int i = 0; i < n; i++) col[j][i] = 0.0 - r[i];
        }
}

// a: nr, nt, nC, DirBC, strategy (0 take, 1 give), detsign
VENTRY(h_symmetry)
{
    VLevelBox b;
    vbuild_level(b, a[0], a[1], a[2], a[3] != 0, true, 0, 0, false, a[5]);
    auto R = make_residual(b, a[4]);
    std::vector<std::vector<double>> col;
    columns(b, *R, col);
    vreach("columns-computed");
    const PolarGrid& g = b.L->grid();
    const int n = g.numberOfNodes();
    int k = 0;
    for (int ir = 0; ir < b.nr; ir++) for (int it = 0; it < b.nt; it++) {
        if (b.is_dirichlet(ir)) continue;
        const int i = g.index(ir, it);
        for (int jr = 0; jr < b.nr; jr++) for (int jt = 0; jt < b.nt; jt++) {
            if (b.is_dirichlet(jr)) continue;
            const int j = g.index(jr, jt);
            if (j <= i) continue;
            vcheck_eq(col[j][i], col[i][j], "A_ij=A_ji", i * n + j);
        }
        // rows of A: positive diagonal (necessary for definiteness), under the coefficient assumptions
        vcheck_lt(0.0, col[i][i], "A_ii>0", i);
    }
}

// local energy: with the coefficients of every node but p set to zero the give operator applies exactly node p's
// contribution A_p (each node scatters terms proportional to its own arr, att, art, beta|detDF|); <A_p x, x> >= 0 for all
// x vanishing on Dirichlet nodes, all spacings > 0 and all coefficients with arr, att > 0, 4 arr att >= art^2, beta >= 0.
// a: nr, nt, nC, DirBC, node radial index, node angular index
VENTRY(h_local_energy)
{
    VLevelBox b;
    const int nr = a[0], nt = a[1];
    auto grid = vmake_grid(nr, nt, a[2]);
    auto lc   = std::make_unique<LevelCache>(*grid, b.co, b.geo, true, true);
    vsymbolize_grid(*grid);
    const int n = grid->numberOfNodes();
    const int p = grid->index(a[4], a[5]);
    for (int i = 0; i < n; i++) { lc->arr_[i] = 0.0; lc->att_[i] = 0.0; lc->art_[i] = 0.0; lc->detDF_[i] = 0.0; }
    for (size_t i = 0; i < lc->coeff_beta_.size(); i++) lc->coeff_beta_[i] = 0.0;
    lc->arr_[p] = vsym_pos("arr", 0, 0); lc->att_[p] = vsym_pos("att", 0, 0); lc->art_[p] = vsym("art", 0, 0);
    lc->detDF_[p] = vsym_pos("det", 0, 0);
    lc->coeff_beta_[a[4]] = vsym("beta", 0, 0); vassume_nonneg(lc->coeff_beta_[a[4]]);
    vassume_le(lc->art_[p] * lc->art_[p], 4.0 * lc->arr_[p] * lc->att_[p]);
    b.nr = nr; b.nt = nt; b.nC = grid->numberSmootherCircles(); b.dirbc = a[3] != 0;
    b.L = std::make_unique<Level>(0, std::move(grid), std::move(lc), ExtrapolationType::NONE, false);
    ResidualGive R(b.L->grid(), b.L->levelCache(), b.geo, b.co, b.dirbc, 1);
    const PolarGrid& g = b.L->grid();
    Vector<double> x(n), z(n), r(n);
    for (int ir = 0; ir < nr; ir++) for (int it = 0; it < nt; it++) {
        const int i = g.index(ir, it);
        // only the 3x3 neighbourhood (and the antipodal node across the origin) can matter; the rest stays free as well
        x[i] = b.is_dirichlet(ir) ? 0.0 : vsym("x", ir, it);
        z[i] = 0.0;
    }
    R.computeResidual(r, z, x);
    vreach("local-form-built");
    double E = 0.0;
    for (int ir = 0; ir < nr; ir++) for (int it = 0; it < nt; it++) {
        if (b.is_dirichlet(ir)) continue;
        const int i = g.index(ir, it);
        E += x[i] * (0.0 - r[i]);
    }
    vcheck_le(0.0, E, "local-energy>=0", p);
}

// definiteness on the smallest grid with numeric coefficients: exists x != 0 with <Ax,x> <= 0 must be unsat.
// a: nr, nt, nC, DirBC, strategy, coefficient variant
VENTRY(h_definite)
{
    VLevelBox b;
    vbuild_level(b, a[0], a[1], a[2], a[3] != 0, false, a[5]);
    auto R = make_residual(b, a[4]);
    const PolarGrid& g = b.L->grid();
    const int n = g.numberOfNodes();
    Vector<double> x(n), z(n), r(n);
    double nrm = 0.0;
    for (int ir = 0; ir < b.nr; ir++) for (int it = 0; it < b.nt; it++) {
        const int i = g.index(ir, it);
        x[i] = b.is_dirichlet(ir) ? 0.0 : vsym("x", ir, it);
        z[i] = 0.0;
        nrm += x[i] * x[i];
    }
    R->computeResidual(r, z, x);
    double E = 0.0;
    for (int ir = 0; ir < b.nr; ir++) for (int it = 0; it < b.nt; it++)
        if (!b.is_dirichlet(ir)) E += x[g.index(ir, it)] * (0.0 - r[g.index(ir, it)]);
    vreach("form-built");
    vassume_lt(0.0, nrm);          // x != 0
    vcheck_lt(0.0, E, "<Ax,x>>0", 0);
}

// line blocks: the matrices the smoothers factorise are the diagonal blocks of A (hence symmetric, and positive definite
// as principal sub-matrices).   a: nr, nt, nC, DirBC, strategy
VENTRY(h_line_blocks)
{
    VLevelBox b;
    vbuild_level(b, a[0], a[1], a[2], a[3] != 0, true, 0);
    auto R = make_residual(b, 1 - a[4]);   // the OTHER strategy's operator is the reference
    std::vector<std::vector<double>> col;
    columns(b, *R, col);
    const PolarGrid& g = b.L->grid();
    const int nt = b.nt, nC = b.nC, nr = b.nr;
    std::unique_ptr<SmootherGive> sg; std::unique_ptr<SmootherTake> st;
    std::vector<SymmetricTridiagonalSolver<double>>*circ, *rad;
    SparseMatrixCSR<double>* inner;
    if (a[4] == 1) { sg = std::make_unique<SmootherGive>(g, b.L->levelCache(), b.geo, b.co, b.dirbc, 1); circ = &sg->circle_tridiagonal_solver_; rad = &sg->radial_tridiagonal_solver_; inner = &sg->inner_boundary_circle_matrix_; }
    else { st = std::make_unique<SmootherTake>(g, b.L->levelCache(), b.geo, b.co, b.dirbc, 1); circ = &st->circle_tridiagonal_solver_; rad = &st->radial_tridiagonal_solver_; inner = &st->inner_boundary_circle_matrix_; }
    vreach("smoother-built");
    auto Aent = [&](int ir, int it, int jr, int jt) -> double {   // A_(ir,it),(jr,jt) with Dirichlet rows = identity
        const int i = g.index(ir, it), j = g.index(jr, jt);
        if (b.is_dirichlet(ir)) return i == j ? 1.0 : 0.0;
        if (b.is_dirichlet(jr)) return 0.0;                       // Dirichlet columns are moved to the right-hand side
        return col[j][i];
    };
    // circles 1 .. nC-1 (circle 0 is the CSR block): cyclic tridiagonal in theta
    for (int ir = 1; ir < nC; ir++) {
        auto& S = (*circ)[ir];
        vcheck_true(S.rows() == nt && S.is_cyclic(), "circle-block-shape", ir);
        for (int it = 0; it < nt; it++) {
            vcheck_eq(S.main_diagonal(it), Aent(ir, it, ir, it), "circle-block-diagonal", ir * nt + it);
            if (it < nt - 1) {
                vcheck_eq(S.sub_diagonal(it), Aent(ir, it, ir, it + 1), "circle-block-subdiagonal", ir * nt + it);
                vcheck_eq(S.sub_diagonal(it), Aent(ir, it + 1, ir, it), "circle-block-subdiagonal^T", ir * nt + it);
            }
        }
        if (nt > 2) {
            vcheck_eq(S.cyclic_corner_element(), Aent(ir, 0, ir, nt - 1), "circle-block-corner", ir);
            vcheck_eq(S.cyclic_corner_element(), Aent(ir, nt - 1, ir, 0), "circle-block-corner^T", ir);
        }
    }
    // radial lines: tridiagonal in r over i_r = nC .. nr-1
    const int len = nr - nC;
    for (int it = 0; it < nt; it++) {
        auto& S = (*rad)[it];
        vcheck_true(S.rows() == len && !S.is_cyclic(), "radial-block-shape", it);
        for (int q = 0; q < len; q++) {
            vcheck_eq(S.main_diagonal(q), Aent(nC + q, it, nC + q, it), "radial-block-diagonal", it * len + q);
            if (q < len - 1) {
                vcheck_eq(S.sub_diagonal(q), Aent(nC + q, it, nC + q + 1, it), "radial-block-subdiagonal", it * len + q);
                vcheck_eq(S.sub_diagonal(q), Aent(nC + q + 1, it, nC + q, it), "radial-block-subdiagonal^T", it * len + q);
            }
        }
    }
    // innermost circle: general sparse block (couples antipodal nodes across the origin)
    vcheck_true(inner->rows() == nt && inner->columns() == nt, "inner-block-shape", 0);
    for (int it = 0; it < nt; it++) {
        std::vector<double> row(nt, 0.0);
        for (int q = 0; q < inner->row_nz_size(it); q++) row[inner->row_nz_index(it, q)] += inner->row_nz_entry(it, q);
        for (int jt = 0; jt < nt; jt++) vcheck_eq(row[jt], Aent(0, it, 0, jt), "inner-block-entry", it * nt + jt);
    }
}
