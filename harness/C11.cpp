// C11 — no data race in any parallel region.  Compiled with -fopenmp for the engine; each entry drives one operator
// so that its multi-thread branch runs (omp_get_max_threads() = 2 in the engine).  Values are irrelevant (shared doubles
// are havocked); what is analysed is which elements each loop iteration reads and writes, per barrier-delimited phase.
#include "vops.h"
#include "vstate.h"

static void fillv(Vector<double>& v, int salt) { for (int i = 0; i < v.size(); i++) v[i] = 0.125 * ((i * 5 + salt) % 9); }

// a: nr, nt, nC, DirBC, operator
//   0 residual give   1 residual take   2 smoother give   3 smoother take   4 extrapolated smoother give   5 extrapolated smoother take
//   6 direct solver give (assembly)   7 direct solver take (assembly)   8 smoother give (A_sc assembly)   9 smoother take (A_sc assembly)
//   10 extrapolated smoother give (assembly)   11 extrapolated smoother take (assembly)   12 level caches (both constructors)
VENTRY(h_region)
{
    VLevelBox b;
    const int op = a[4], T = 2;
    vset_threads(1);
    vbuild_level(b, a[0], a[1], a[2], a[3] != 0, false, 1);
    const PolarGrid& g = b.L->grid();
    const int n = g.numberOfNodes();
    Vector<double> x(n), f(n), r(n), t(n);
    fillv(x, 1); fillv(f, 2); fillv(r, 3); fillv(t, 4);
    if (op == 0 || op == 1) { auto R = vresidual(b, op == 0 ? 1 : 0, T); vset_threads(T); vrace_begin(); vreach("parallel-code-reached"); R->computeResidual(r, f, x); }
    else if (op == 2 || op == 3) { auto S = vsmoother(b, op == 2 ? 1 : 0, 1); vset_threads(T); S->num_omp_threads_; vrace_begin(); vreach("parallel-code-reached");
        // the object was built single-threaded; run the sweep with the multi-thread setting
        const_cast<int&>(S->num_omp_threads_) = T; S->smoothing(x, f, t); }
    else if (op == 4 || op == 5) { auto S = vexsmoother(b, op == 4 ? 1 : 0, 1); vset_threads(T); vrace_begin(); vreach("parallel-code-reached");
        const_cast<int&>(S->num_omp_threads_) = T; S->extrapolatedSmoothing(x, f, t); }
    else if (op == 6 || op == 7) { vset_threads(T); vrace_begin(); vreach("parallel-code-reached"); auto D = vdirect(b, op == 6 ? 1 : 0, T); }
    else if (op == 8 || op == 9) { vset_threads(T); vrace_begin(); vreach("parallel-code-reached"); auto S = vsmoother(b, op == 8 ? 1 : 0, T); }
    else if (op == 10 || op == 11) { vset_threads(T); vrace_begin(); vreach("parallel-code-reached"); auto S = vexsmoother(b, op == 10 ? 1 : 0, T); }
    else if (op == 12) {
        vset_threads(T); vrace_begin(); vreach("parallel-code-reached");
        LevelCache lc(g, b.co, b.geo, true, true);
        if ((g.nr() - 1) % 2 == 0 && g.ntheta() % 2 == 0) { PolarGrid c = coarseningGrid(g); LevelCache lcc(*b.L, c); }
    }
    vreach("done");
}

// transfer operators and GMGPolar-level regions.  a: operator
//   0 prolongation  1 restriction  2 extrapolated prolongation  3 extrapolated restriction  4 injection  5 FMG interpolation
//   6 build_rhs_f + discretize_rhs_f  7 extrapolatedResidual  8 computeExactError
VENTRY(h_gmg_region)
{
    VConfig c;
    c.threads = 1; c.extrapolation = 1; c.with_exact = true; c.fmg = 1;
    GMGPolar* g = vmake_state(vstate_storage(), c);
    vset_threads(1);
    g->setup();
    Level &L0 = g->levels_[0], &L1 = g->levels_[1];
    const int n0 = L0.grid().numberOfNodes(), n1 = L1.grid().numberOfNodes();
    Vector<double> xf(n0), xc(n1), yf(n0), yc(n1);
    fillv(xf, 1); fillv(xc, 2); fillv(yf, 3); fillv(yc, 4);
    g->threads_per_level_[0] = 2; g->threads_per_level_[1] = 2;
    vset_threads(2);
    vrace_begin(); vreach("parallel-code-reached");
    switch (a[0]) {
    case 0: g->prolongation(1, yf, xc); break;
    case 1: g->restriction(0, yc, xf); break;
    case 2: g->extrapolatedProlongation(1, yf, xc); break;
    case 3: g->extrapolatedRestriction(0, yc, xf); break;
    case 4: g->injection(0, yc, xf); break;
    case 5: g->FMGInterpolation(1, yf, xc); break;
    case 6: g->build_rhs_f(L0, yf); g->discretize_rhs_f(L0, yf); break;
    case 7: g->extrapolatedResidual(0, yf, xc); break;
    case 8: g->computeExactError(L0, xf, yf); break;
    }
    vreach("done");
}
