// C06 — smoothing is an exact zebra line relaxation of the same operator.
#include "vops.h"

// a: nr, nt, nC, DirBC, strategy (0 take, 1 give), threads, symbolic coefficients (0 numeric small rationals / 1 symbolic), variant
VENTRY(h_sweep)
{
    VLevelBox b;
    const int strat = a[4], T = a[5];
    vbuild_level(b, a[0], a[1], a[2], a[3] != 0, a[6] != 0, a[7]);
    const PolarGrid& g = b.L->grid();
    const int n = g.numberOfNodes(), nr = b.nr, nt = b.nt, nC = b.nC;
    auto Rother = vresidual(b, 1 - strat);       // the independent operator: the OTHER strategy's residual
    auto S      = vsmoother(b, strat, T);
    auto S2     = vsmoother(b, 1 - strat, 1);
    vreach("operators-built");
    // 1. fixed point
    Vector<double> u(n), f(n), x(n), tmp(n);
    for (int i = 0; i < n; i++) u[i] = vsym("u", i, 0);
    vapplyA(*Rother, n, u, f);
    for (int i = 0; i < n; i++) { x[i] = u[i]; tmp[i] = vsym("stale", i, 0); }
    S->smoothing(x, f, tmp);
    for (int i = 0; i < n; i++) vcheck_eq(x[i], u[i], "sweep(exact-solution)=exact-solution", i);
    // 2.-4. arbitrary iterate and right-hand side
    Vector<double> x0(n), rhs(n), y(n), r(n);
    for (int i = 0; i < n; i++) { x0[i] = vsym("x", i, 0); rhs[i] = vsym("f", i, 0); x[i] = x0[i]; y[i] = x0[i]; tmp[i] = vsym("stale", i, 1); }
    S->smoothing(x, rhs, tmp);
    Vector<double> tmp2(n);
    for (int i = 0; i < n; i++) tmp2[i] = 0.0;
    S2->smoothing(y, rhs, tmp2);
    Rother->computeResidual(r, rhs, x);
    vreach("sweep-done");
    for (int ir = 0; ir < nr; ir++)
        for (int it = 0; it < nt; it++) {
            const int i = g.index(ir, it);
            vcheck_eq(x[i], y[i], "give-sweep=take-sweep", i);
            vcheck_indep(x[i], "stale", "result-independent-of-temp-contents", i);
            if (b.is_dirichlet(ir)) { vcheck_eq(x[i], rhs[i], "dirichlet-node=boundary-data", i); continue; }
            const bool last_colour = (ir < nC) ? vcircle_is_white(nC, ir) : ((it & 1) != 0);
            if (last_colour) vcheck_eq(r[i], 0.0, "residual-zero-on-last-colour", i);
        }
}

// energy: with f = 0 and an error e vanishing on Dirichlet nodes, E(S e) <= E(e), E(v) = <A v, v>  (smallest grid, numeric coefficients)
// a: nr, nt, nC, DirBC, strategy, variant
VENTRY(h_energy)
{
    VLevelBox b;
    vbuild_level(b, a[0], a[1], a[2], a[3] != 0, false, a[5]);
    const PolarGrid& g = b.L->grid();
    const int n = g.numberOfNodes();
    auto R = vresidual(b, 1 - a[4]);
    auto S = vsmoother(b, a[4], 1);
    Vector<double> e(n), z(n), tmp(n), Ae(n), Se(n), ASe(n);
    for (int ir = 0; ir < b.nr; ir++) for (int it = 0; it < b.nt; it++) {
        const int i = g.index(ir, it);
        e[i] = b.is_dirichlet(ir) ? 0.0 : vsym("e", ir, it);
        z[i] = 0.0; tmp[i] = 0.0; Se[i] = e[i];
    }
    S->smoothing(Se, z, tmp);
    vapplyA(*R, n, e, Ae);
    vapplyA(*R, n, Se, ASe);
    double E0 = 0.0, E1 = 0.0;
    for (int ir = 0; ir < b.nr; ir++) for (int it = 0; it < b.nt; it++) {
        if (b.is_dirichlet(ir)) continue;
        const int i = g.index(ir, it);
        E0 += e[i] * Ae[i]; E1 += Se[i] * ASe[i];
    }
    vreach("energies-built");
    vcheck_le(E1, E0, "energy-not-increased", 0);
}
