// C19 — shipped test problems are consistent manufactured solutions (partly): Jacobians = partial derivatives of the
// mapping, beta = 1/alpha for the gyro profiles, boundary data = exact solution on the boundary.
#include "vharness.h"
#include "InputFunctions/DomainGeometry/circularGeometry.h"
#include "InputFunctions/DomainGeometry/shafranovGeometry.h"
#include "InputFunctions/DomainGeometry/czarnyGeometry.h"
#include "InputFunctions/DomainGeometry/culhamGeometry.h"
#include "InputFunctions/DensityProfileCoefficients/sonnendruckerGyroCoefficients.h"
#include "InputFunctions/DensityProfileCoefficients/zoniGyroCoefficients.h"
#include "InputFunctions/DensityProfileCoefficients/zoniShiftedGyroCoefficients.h"
#include "InputFunctions/BoundaryConditions/cartesianR2_Boundary_CircularGeometry.h"
#include "InputFunctions/BoundaryConditions/cartesianR2_Boundary_ShafranovGeometry.h"
#include "InputFunctions/BoundaryConditions/cartesianR2_Boundary_CzarnyGeometry.h"
#include "InputFunctions/BoundaryConditions/cartesianR6_Boundary_CircularGeometry.h"
#include "InputFunctions/BoundaryConditions/cartesianR6_Boundary_ShafranovGeometry.h"
#include "InputFunctions/BoundaryConditions/cartesianR6_Boundary_CzarnyGeometry.h"
#include "InputFunctions/BoundaryConditions/polarR6_Boundary_CircularGeometry.h"
#include "InputFunctions/BoundaryConditions/polarR6_Boundary_ShafranovGeometry.h"
#include "InputFunctions/BoundaryConditions/polarR6_Boundary_CzarnyGeometry.h"
#include "InputFunctions/ExactSolution/cartesianR2_CircularGeometry.h"
#include "InputFunctions/ExactSolution/cartesianR2_ShafranovGeometry.h"
#include "InputFunctions/ExactSolution/cartesianR2_CzarnyGeometry.h"
#include "InputFunctions/ExactSolution/cartesianR6_CircularGeometry.h"
#include "InputFunctions/ExactSolution/cartesianR6_ShafranovGeometry.h"
#include "InputFunctions/ExactSolution/cartesianR6_CzarnyGeometry.h"
#include "InputFunctions/ExactSolution/polarR6_CircularGeometry.h"
#include "InputFunctions/ExactSolution/polarR6_ShafranovGeometry.h"
#include "InputFunctions/ExactSolution/polarR6_CzarnyGeometry.h"
#include <cmath>
#include <memory>

struct Pt { double r, th, s, c; };
// symbolic point: r > 0, theta free, (s, c) = (sin theta, cos theta) as symbols with s^2 + c^2 = 1.
// natively: a random point with the true sine and cosine
static Pt point(bool concrete_r)
{
    Pt p;
    p.r = concrete_r ? 0.65 : vsym_pos("r", 0, 0);
    p.th = vsym("theta", 0, 0);
    if (vis_symbolic()) { p.s = vsym("s", 0, 0); p.c = vsym("c", 0, 0); vassume_eq(p.s * p.s + p.c * p.c, 1.0); }
    else {
        // replay of a solver model: the model fixes (s, c) on the unit circle, theta follows from them; random mode: theta is the input
        const double s_in = vsym("s", 0, 0), c_in = vsym("c", 0, 0);
        if (fabs(s_in * s_in + c_in * c_in - 1.0) < 1e-9) p.th = atan2(s_in, c_in);
        p.s = sin(p.th); p.c = cos(p.th);
    }
    return p;
}
static std::unique_ptr<DomainGeometry> geometry(int g, double Rmax, double p1, double p2)
{
    switch (g) {
    case 0: return std::make_unique<CircularGeometry>(Rmax);
    case 1: return std::make_unique<ShafranovGeometry>(Rmax, p1, p2);
    case 2: return std::make_unique<CzarnyGeometry>(Rmax, p1, p2);
    default: return std::make_unique<CulhamGeometry>(Rmax);
    }
}
// a: geometry (0 circular, 1 Shafranov, 2 Czarny, 3 Culham: theta derivatives only, concrete r), symbolic parameters (0/1)
VENTRY(h_jacobian)
{
    const int gi = a[0];
    const bool symp = a[1] != 0;
    double Rmax = 1.3, p1 = gi == 1 ? 0.3 : 0.3, p2 = gi == 1 ? 0.2 : 1.4;
    if (symp) {
        Rmax = vsym_pos("Rmax", 0, 0);
        p1 = vsym_pos("p1", 0, 0); vassume_lt(p1, 1.0);        // elongation kappa / inverse aspect ratio epsilon in (0,1)
        p2 = vsym_pos("p2", 0, 0);                               // shift delta / ellipticity e > 0
    }
    auto G = geometry(gi, Rmax, p1, p2);
    Pt p = point(gi == 3);
    vreach("geometry-built");
    const double h = 1e-6;
    auto FD = [&](bool fy, bool in_r) {
        double r1 = p.r + (in_r ? h : 0), r0 = p.r - (in_r ? h : 0), t1 = p.th + (in_r ? 0 : h), t0 = p.th - (in_r ? 0 : h);
        double f1 = fy ? G->Fy(r1, t1, sin(t1), cos(t1)) : G->Fx(r1, t1, sin(t1), cos(t1));
        double f0 = fy ? G->Fy(r0, t0, sin(t0), cos(t0)) : G->Fx(r0, t0, sin(t0), cos(t0));
        return (f1 - f0) / (2 * h);
    };
    const double Fx = G->Fx(p.r, p.th, p.s, p.c), Fy = G->Fy(p.r, p.th, p.s, p.c);
    if (gi != 3) {
        vcheck_deriv(Fx, G->dFx_dr(p.r, p.th, p.s, p.c), "r", "dFx_dr=d(Fx)/dr", gi, vis_symbolic() ? 0.0 : FD(false, true));
        vcheck_deriv(Fy, G->dFy_dr(p.r, p.th, p.s, p.c), "r", "dFy_dr=d(Fy)/dr", gi, vis_symbolic() ? 0.0 : FD(true, true));
    }
    vcheck_deriv(Fx, G->dFx_dt(p.r, p.th, p.s, p.c), "theta", "dFx_dt=d(Fx)/dtheta", gi, vis_symbolic() ? 0.0 : FD(false, false));
    vcheck_deriv(Fy, G->dFy_dt(p.r, p.th, p.s, p.c), "theta", "dFy_dt=d(Fy)/dtheta", gi, vis_symbolic() ? 0.0 : FD(true, false));
}

// beta * alpha = 1 for the gyro profiles.  a: profile (0 SonnendruckerGyro, 1 ZoniGyro, 2 ZoniShiftedGyro)
VENTRY(h_gyro)
{
    const double Rmax = vsym_pos("Rmax", 0, 0), r = vsym_pos("r", 0, 0);
    vassume_le(r, Rmax);
    std::unique_ptr<DensityProfileCoefficients> P;
    if (a[0] == 0) P = std::make_unique<SonnendruckerGyroCoefficients>(Rmax, 0.0);
    else if (a[0] == 1) P = std::make_unique<ZoniGyroCoefficients>(Rmax, 0.0);
    else P = std::make_unique<ZoniShiftedGyroCoefficients>(Rmax, 0.0);
    vreach("profile-built");
    vcheck_eq(P->alpha(r) * P->beta(r), 1.0, "beta=1/alpha", a[0]);
    if (a[0] != 0) vcheck_lt(0.0, P->alpha(r), "alpha>0", a[0]);   // (the atan profile needs numeric bounds on atan: not decided)
}

// boundary data = exact solution at every boundary point.  a: problem (0 CartesianR2, 1 CartesianR6, 2 PolarR6), geometry (0..2)
VENTRY(h_boundary)
{
    const double Rmax = 1.3, k = 0.35, d = 0.15, eps = 0.25, e = 1.25;   // deliberately NOT the defaults (0.3, 0.2, 0.3, 1.4): a class that ignores a constructor argument must show
    std::unique_ptr<BoundaryConditions> B; std::unique_ptr<ExactSolution> U;
    const int pr = a[0], g = a[1];
    if (pr == 0 && g == 0) { B = std::make_unique<CartesianR2_Boundary_CircularGeometry>(Rmax); U = std::make_unique<CartesianR2_CircularGeometry>(Rmax); }
    if (pr == 0 && g == 1) { B = std::make_unique<CartesianR2_Boundary_ShafranovGeometry>(Rmax, k, d); U = std::make_unique<CartesianR2_ShafranovGeometry>(Rmax, k, d); }
    if (pr == 0 && g == 2) { B = std::make_unique<CartesianR2_Boundary_CzarnyGeometry>(Rmax, eps, e); U = std::make_unique<CartesianR2_CzarnyGeometry>(Rmax, eps, e); }
    if (pr == 1 && g == 0) { B = std::make_unique<CartesianR6_Boundary_CircularGeometry>(Rmax); U = std::make_unique<CartesianR6_CircularGeometry>(Rmax); }
    if (pr == 1 && g == 1) { B = std::make_unique<CartesianR6_Boundary_ShafranovGeometry>(Rmax, k, d); U = std::make_unique<CartesianR6_ShafranovGeometry>(Rmax, k, d); }
    if (pr == 1 && g == 2) { B = std::make_unique<CartesianR6_Boundary_CzarnyGeometry>(Rmax, eps, e); U = std::make_unique<CartesianR6_CzarnyGeometry>(Rmax, eps, e); }
    if (pr == 2 && g == 0) { B = std::make_unique<PolarR6_Boundary_CircularGeometry>(Rmax); U = std::make_unique<PolarR6_CircularGeometry>(Rmax); }
    if (pr == 2 && g == 1) { B = std::make_unique<PolarR6_Boundary_ShafranovGeometry>(Rmax, k, d); U = std::make_unique<PolarR6_ShafranovGeometry>(Rmax, k, d); }
    if (pr == 2 && g == 2) { B = std::make_unique<PolarR6_Boundary_CzarnyGeometry>(Rmax, eps, e); U = std::make_unique<PolarR6_CzarnyGeometry>(Rmax, eps, e); }
    Pt p = point(false);
    vreach("classes-built");
    // the boundary-data functions are the trace of the exact solution (checked at every r, which covers both boundaries)
    vcheck_eq(B->u_D(p.r, p.th, p.s, p.c), U->exact_solution(p.r, p.th, p.s, p.c), "u_D=exact-solution", pr * 3 + g);
    vcheck_eq(B->u_D_Interior(p.r, p.th, p.s, p.c), U->exact_solution(p.r, p.th, p.s, p.c), "u_D_Interior=exact-solution", pr * 3 + g);
}

// ---------------------------------------------------------------------------------------------------------------
// source term = -div(alpha grad u) + beta u in the metric of the mapping (Poisson coefficients: alpha = 1, beta = 0).
#include "InputFunctions/DensityProfileCoefficients/poissonCoefficients.h"
#include "InputFunctions/DensityProfileCoefficients/sonnendruckerCoefficients.h"
#include "InputFunctions/DensityProfileCoefficients/zoniCoefficients.h"
#include "InputFunctions/DensityProfileCoefficients/zoniShiftedCoefficients.h"
#include "InputFunctions/SourceTerms/cartesianR2_Poisson_CircularGeometry.h"
#include "InputFunctions/SourceTerms/cartesianR2_Poisson_ShafranovGeometry.h"
#include "InputFunctions/SourceTerms/cartesianR2_Poisson_CzarnyGeometry.h"
#include "InputFunctions/SourceTerms/cartesianR2_Sonnendrucker_CircularGeometry.h"
#include "InputFunctions/SourceTerms/cartesianR2_Sonnendrucker_ShafranovGeometry.h"
#include "InputFunctions/SourceTerms/cartesianR2_Sonnendrucker_CzarnyGeometry.h"
#include "InputFunctions/SourceTerms/cartesianR2_Zoni_CircularGeometry.h"
#include "InputFunctions/SourceTerms/cartesianR2_Zoni_ShafranovGeometry.h"
#include "InputFunctions/SourceTerms/cartesianR2_Zoni_CzarnyGeometry.h"
#include "InputFunctions/SourceTerms/cartesianR2_ZoniShifted_CircularGeometry.h"
#include "InputFunctions/SourceTerms/cartesianR2_ZoniShifted_ShafranovGeometry.h"
#include "InputFunctions/SourceTerms/cartesianR2_ZoniShifted_CzarnyGeometry.h"
#include "InputFunctions/SourceTerms/cartesianR2_SonnendruckerGyro_CircularGeometry.h"
#include "InputFunctions/SourceTerms/cartesianR2_SonnendruckerGyro_ShafranovGeometry.h"
#include "InputFunctions/SourceTerms/cartesianR2_SonnendruckerGyro_CzarnyGeometry.h"
#include "InputFunctions/SourceTerms/cartesianR2_ZoniGyro_CircularGeometry.h"
#include "InputFunctions/SourceTerms/cartesianR2_ZoniGyro_ShafranovGeometry.h"
#include "InputFunctions/SourceTerms/cartesianR2_ZoniGyro_CzarnyGeometry.h"
#include "InputFunctions/SourceTerms/cartesianR2_ZoniShiftedGyro_CircularGeometry.h"
#include "InputFunctions/SourceTerms/cartesianR2_ZoniShiftedGyro_ShafranovGeometry.h"
#include "InputFunctions/SourceTerms/cartesianR2_ZoniShiftedGyro_CzarnyGeometry.h"
#include "InputFunctions/SourceTerms/cartesianR6_Poisson_CircularGeometry.h"
#include "InputFunctions/SourceTerms/cartesianR6_Poisson_ShafranovGeometry.h"
#include "InputFunctions/SourceTerms/cartesianR6_Poisson_CzarnyGeometry.h"
#include "InputFunctions/SourceTerms/cartesianR6_Sonnendrucker_CircularGeometry.h"
#include "InputFunctions/SourceTerms/cartesianR6_Sonnendrucker_ShafranovGeometry.h"
#include "InputFunctions/SourceTerms/cartesianR6_Sonnendrucker_CzarnyGeometry.h"
#include "InputFunctions/SourceTerms/cartesianR6_Zoni_CircularGeometry.h"
#include "InputFunctions/SourceTerms/cartesianR6_Zoni_ShafranovGeometry.h"
#include "InputFunctions/SourceTerms/cartesianR6_Zoni_CzarnyGeometry.h"
#include "InputFunctions/SourceTerms/cartesianR6_ZoniShifted_CircularGeometry.h"
#include "InputFunctions/SourceTerms/cartesianR6_ZoniShifted_ShafranovGeometry.h"
#include "InputFunctions/SourceTerms/cartesianR6_ZoniShifted_CzarnyGeometry.h"
#include "InputFunctions/SourceTerms/cartesianR6_SonnendruckerGyro_CircularGeometry.h"
#include "InputFunctions/SourceTerms/cartesianR6_SonnendruckerGyro_ShafranovGeometry.h"
#include "InputFunctions/SourceTerms/cartesianR6_SonnendruckerGyro_CzarnyGeometry.h"
#include "InputFunctions/SourceTerms/cartesianR6_ZoniGyro_CircularGeometry.h"
#include "InputFunctions/SourceTerms/cartesianR6_ZoniGyro_ShafranovGeometry.h"
#include "InputFunctions/SourceTerms/cartesianR6_ZoniGyro_CzarnyGeometry.h"
#include "InputFunctions/SourceTerms/cartesianR6_ZoniShiftedGyro_CircularGeometry.h"
#include "InputFunctions/SourceTerms/cartesianR6_ZoniShiftedGyro_ShafranovGeometry.h"
#include "InputFunctions/SourceTerms/cartesianR6_ZoniShiftedGyro_CzarnyGeometry.h"
#include "InputFunctions/SourceTerms/polarR6_Poisson_CircularGeometry.h"
#include "InputFunctions/SourceTerms/polarR6_Poisson_ShafranovGeometry.h"
#include "InputFunctions/SourceTerms/polarR6_Poisson_CzarnyGeometry.h"
#include "InputFunctions/SourceTerms/polarR6_Sonnendrucker_CircularGeometry.h"
#include "InputFunctions/SourceTerms/polarR6_Sonnendrucker_ShafranovGeometry.h"
#include "InputFunctions/SourceTerms/polarR6_Sonnendrucker_CzarnyGeometry.h"
#include "InputFunctions/SourceTerms/polarR6_Zoni_CircularGeometry.h"
#include "InputFunctions/SourceTerms/polarR6_Zoni_ShafranovGeometry.h"
#include "InputFunctions/SourceTerms/polarR6_Zoni_CzarnyGeometry.h"
#include "InputFunctions/SourceTerms/polarR6_ZoniShifted_CircularGeometry.h"
#include "InputFunctions/SourceTerms/polarR6_ZoniShifted_ShafranovGeometry.h"
#include "InputFunctions/SourceTerms/polarR6_ZoniShifted_CzarnyGeometry.h"
#include "InputFunctions/SourceTerms/polarR6_SonnendruckerGyro_CircularGeometry.h"
#include "InputFunctions/SourceTerms/polarR6_SonnendruckerGyro_ShafranovGeometry.h"
#include "InputFunctions/SourceTerms/polarR6_SonnendruckerGyro_CzarnyGeometry.h"
#include "InputFunctions/SourceTerms/polarR6_ZoniGyro_CircularGeometry.h"
#include "InputFunctions/SourceTerms/polarR6_ZoniGyro_ShafranovGeometry.h"
#include "InputFunctions/SourceTerms/polarR6_ZoniGyro_CzarnyGeometry.h"
#include "InputFunctions/SourceTerms/polarR6_ZoniShiftedGyro_CircularGeometry.h"
#include "InputFunctions/SourceTerms/polarR6_ZoniShiftedGyro_ShafranovGeometry.h"
#include "InputFunctions/SourceTerms/polarR6_ZoniShiftedGyro_CzarnyGeometry.h"

struct Problem { std::unique_ptr<DomainGeometry> G; std::unique_ptr<ExactSolution> U; std::unique_ptr<SourceTerm> F; std::unique_ptr<DensityProfileCoefficients> P; };
// pr: 0 CartesianR2, 1 CartesianR6, 2 PolarR6; g: 0 Circular, 1 Shafranov, 2 Czarny;
// prof: 0 Poisson, 1 Sonnendrucker, 2 Zoni, 3 ZoniShifted, 4 SonnendruckerGyro, 5 ZoniGyro, 6 ZoniShiftedGyro
static Problem problem(int pr, int g, int prof = 0)
{
    const double Rmax = 1.3, k = 0.35, d = 0.15, eps = 0.25, e = 1.25;   // deliberately NOT the defaults (0.3, 0.2, 0.3, 1.4): a class that ignores a constructor argument must show
    Problem p;
    switch (prof) {
    case 0: p.P = std::make_unique<PoissonCoefficients>(Rmax, 0.0); break;
    case 1: p.P = std::make_unique<SonnendruckerCoefficients>(Rmax, 0.0); break;
    case 2: p.P = std::make_unique<ZoniCoefficients>(Rmax, 0.0); break;
    case 3: p.P = std::make_unique<ZoniShiftedCoefficients>(Rmax, 0.0); break;
    case 4: p.P = std::make_unique<SonnendruckerGyroCoefficients>(Rmax, 0.0); break;
    case 5: p.P = std::make_unique<ZoniGyroCoefficients>(Rmax, 0.0); break;
    case 6: p.P = std::make_unique<ZoniShiftedGyroCoefficients>(Rmax, 0.0); break;
    }
    p.G = geometry(g, Rmax, g == 1 ? k : eps, g == 1 ? d : e);
    if (pr == 0 && g == 0) p.U = std::make_unique<CartesianR2_CircularGeometry>(Rmax);
    if (pr == 0 && g == 0 && prof == 0) p.F = std::make_unique<CartesianR2_Poisson_CircularGeometry>(Rmax);
    if (pr == 0 && g == 0 && prof == 1) p.F = std::make_unique<CartesianR2_Sonnendrucker_CircularGeometry>(Rmax);
    if (pr == 0 && g == 0 && prof == 2) p.F = std::make_unique<CartesianR2_Zoni_CircularGeometry>(Rmax);
    if (pr == 0 && g == 0 && prof == 3) p.F = std::make_unique<CartesianR2_ZoniShifted_CircularGeometry>(Rmax);
    if (pr == 0 && g == 0 && prof == 4) p.F = std::make_unique<CartesianR2_SonnendruckerGyro_CircularGeometry>(Rmax);
    if (pr == 0 && g == 0 && prof == 5) p.F = std::make_unique<CartesianR2_ZoniGyro_CircularGeometry>(Rmax);
    if (pr == 0 && g == 0 && prof == 6) p.F = std::make_unique<CartesianR2_ZoniShiftedGyro_CircularGeometry>(Rmax);
    if (pr == 0 && g == 1) p.U = std::make_unique<CartesianR2_ShafranovGeometry>(Rmax, k, d);
    if (pr == 0 && g == 1 && prof == 0) p.F = std::make_unique<CartesianR2_Poisson_ShafranovGeometry>(Rmax, k, d);
    if (pr == 0 && g == 1 && prof == 1) p.F = std::make_unique<CartesianR2_Sonnendrucker_ShafranovGeometry>(Rmax, k, d);
    if (pr == 0 && g == 1 && prof == 2) p.F = std::make_unique<CartesianR2_Zoni_ShafranovGeometry>(Rmax, k, d);
    if (pr == 0 && g == 1 && prof == 3) p.F = std::make_unique<CartesianR2_ZoniShifted_ShafranovGeometry>(Rmax, k, d);
    if (pr == 0 && g == 1 && prof == 4) p.F = std::make_unique<CartesianR2_SonnendruckerGyro_ShafranovGeometry>(Rmax, k, d);
    if (pr == 0 && g == 1 && prof == 5) p.F = std::make_unique<CartesianR2_ZoniGyro_ShafranovGeometry>(Rmax, k, d);
    if (pr == 0 && g == 1 && prof == 6) p.F = std::make_unique<CartesianR2_ZoniShiftedGyro_ShafranovGeometry>(Rmax, k, d);
    if (pr == 0 && g == 2) p.U = std::make_unique<CartesianR2_CzarnyGeometry>(Rmax, eps, e);
    if (pr == 0 && g == 2 && prof == 0) p.F = std::make_unique<CartesianR2_Poisson_CzarnyGeometry>(Rmax, eps, e);
    if (pr == 0 && g == 2 && prof == 1) p.F = std::make_unique<CartesianR2_Sonnendrucker_CzarnyGeometry>(Rmax, eps, e);
    if (pr == 0 && g == 2 && prof == 2) p.F = std::make_unique<CartesianR2_Zoni_CzarnyGeometry>(Rmax, eps, e);
    if (pr == 0 && g == 2 && prof == 3) p.F = std::make_unique<CartesianR2_ZoniShifted_CzarnyGeometry>(Rmax, eps, e);
    if (pr == 0 && g == 2 && prof == 4) p.F = std::make_unique<CartesianR2_SonnendruckerGyro_CzarnyGeometry>(Rmax, eps, e);
    if (pr == 0 && g == 2 && prof == 5) p.F = std::make_unique<CartesianR2_ZoniGyro_CzarnyGeometry>(Rmax, eps, e);
    if (pr == 0 && g == 2 && prof == 6) p.F = std::make_unique<CartesianR2_ZoniShiftedGyro_CzarnyGeometry>(Rmax, eps, e);
    if (pr == 1 && g == 0) p.U = std::make_unique<CartesianR6_CircularGeometry>(Rmax);
    if (pr == 1 && g == 0 && prof == 0) p.F = std::make_unique<CartesianR6_Poisson_CircularGeometry>(Rmax);
    if (pr == 1 && g == 0 && prof == 1) p.F = std::make_unique<CartesianR6_Sonnendrucker_CircularGeometry>(Rmax);
    if (pr == 1 && g == 0 && prof == 2) p.F = std::make_unique<CartesianR6_Zoni_CircularGeometry>(Rmax);
    if (pr == 1 && g == 0 && prof == 3) p.F = std::make_unique<CartesianR6_ZoniShifted_CircularGeometry>(Rmax);
    if (pr == 1 && g == 0 && prof == 4) p.F = std::make_unique<CartesianR6_SonnendruckerGyro_CircularGeometry>(Rmax);
    if (pr == 1 && g == 0 && prof == 5) p.F = std::make_unique<CartesianR6_ZoniGyro_CircularGeometry>(Rmax);
    if (pr == 1 && g == 0 && prof == 6) p.F = std::make_unique<CartesianR6_ZoniShiftedGyro_CircularGeometry>(Rmax);
    if (pr == 1 && g == 1) p.U = std::make_unique<CartesianR6_ShafranovGeometry>(Rmax, k, d);
    if (pr == 1 && g == 1 && prof == 0) p.F = std::make_unique<CartesianR6_Poisson_ShafranovGeometry>(Rmax, k, d);
    if (pr == 1 && g == 1 && prof == 1) p.F = std::make_unique<CartesianR6_Sonnendrucker_ShafranovGeometry>(Rmax, k, d);
    if (pr == 1 && g == 1 && prof == 2) p.F = std::make_unique<CartesianR6_Zoni_ShafranovGeometry>(Rmax, k, d);
    if (pr == 1 && g == 1 && prof == 3) p.F = std::make_unique<CartesianR6_ZoniShifted_ShafranovGeometry>(Rmax, k, d);
    if (pr == 1 && g == 1 && prof == 4) p.F = std::make_unique<CartesianR6_SonnendruckerGyro_ShafranovGeometry>(Rmax, k, d);
    if (pr == 1 && g == 1 && prof == 5) p.F = std::make_unique<CartesianR6_ZoniGyro_ShafranovGeometry>(Rmax, k, d);
    if (pr == 1 && g == 1 && prof == 6) p.F = std::make_unique<CartesianR6_ZoniShiftedGyro_ShafranovGeometry>(Rmax, k, d);
    if (pr == 1 && g == 2) p.U = std::make_unique<CartesianR6_CzarnyGeometry>(Rmax, eps, e);
    if (pr == 1 && g == 2 && prof == 0) p.F = std::make_unique<CartesianR6_Poisson_CzarnyGeometry>(Rmax, eps, e);
    if (pr == 1 && g == 2 && prof == 1) p.F = std::make_unique<CartesianR6_Sonnendrucker_CzarnyGeometry>(Rmax, eps, e);
    if (pr == 1 && g == 2 && prof == 2) p.F = std::make_unique<CartesianR6_Zoni_CzarnyGeometry>(Rmax, eps, e);
    if (pr == 1 && g == 2 && prof == 3) p.F = std::make_unique<CartesianR6_ZoniShifted_CzarnyGeometry>(Rmax, eps, e);
    if (pr == 1 && g == 2 && prof == 4) p.F = std::make_unique<CartesianR6_SonnendruckerGyro_CzarnyGeometry>(Rmax, eps, e);
    if (pr == 1 && g == 2 && prof == 5) p.F = std::make_unique<CartesianR6_ZoniGyro_CzarnyGeometry>(Rmax, eps, e);
    if (pr == 1 && g == 2 && prof == 6) p.F = std::make_unique<CartesianR6_ZoniShiftedGyro_CzarnyGeometry>(Rmax, eps, e);
    if (pr == 2 && g == 0) p.U = std::make_unique<PolarR6_CircularGeometry>(Rmax);
    if (pr == 2 && g == 0 && prof == 0) p.F = std::make_unique<PolarR6_Poisson_CircularGeometry>(Rmax);
    if (pr == 2 && g == 0 && prof == 1) p.F = std::make_unique<PolarR6_Sonnendrucker_CircularGeometry>(Rmax);
    if (pr == 2 && g == 0 && prof == 2) p.F = std::make_unique<PolarR6_Zoni_CircularGeometry>(Rmax);
    if (pr == 2 && g == 0 && prof == 3) p.F = std::make_unique<PolarR6_ZoniShifted_CircularGeometry>(Rmax);
    if (pr == 2 && g == 0 && prof == 4) p.F = std::make_unique<PolarR6_SonnendruckerGyro_CircularGeometry>(Rmax);
    if (pr == 2 && g == 0 && prof == 5) p.F = std::make_unique<PolarR6_ZoniGyro_CircularGeometry>(Rmax);
    if (pr == 2 && g == 0 && prof == 6) p.F = std::make_unique<PolarR6_ZoniShiftedGyro_CircularGeometry>(Rmax);
    if (pr == 2 && g == 1) p.U = std::make_unique<PolarR6_ShafranovGeometry>(Rmax, k, d);
    if (pr == 2 && g == 1 && prof == 0) p.F = std::make_unique<PolarR6_Poisson_ShafranovGeometry>(Rmax, k, d);
    if (pr == 2 && g == 1 && prof == 1) p.F = std::make_unique<PolarR6_Sonnendrucker_ShafranovGeometry>(Rmax, k, d);
    if (pr == 2 && g == 1 && prof == 2) p.F = std::make_unique<PolarR6_Zoni_ShafranovGeometry>(Rmax, k, d);
    if (pr == 2 && g == 1 && prof == 3) p.F = std::make_unique<PolarR6_ZoniShifted_ShafranovGeometry>(Rmax, k, d);
    if (pr == 2 && g == 1 && prof == 4) p.F = std::make_unique<PolarR6_SonnendruckerGyro_ShafranovGeometry>(Rmax, k, d);
    if (pr == 2 && g == 1 && prof == 5) p.F = std::make_unique<PolarR6_ZoniGyro_ShafranovGeometry>(Rmax, k, d);
    if (pr == 2 && g == 1 && prof == 6) p.F = std::make_unique<PolarR6_ZoniShiftedGyro_ShafranovGeometry>(Rmax, k, d);
    if (pr == 2 && g == 2) p.U = std::make_unique<PolarR6_CzarnyGeometry>(Rmax, eps, e);
    if (pr == 2 && g == 2 && prof == 0) p.F = std::make_unique<PolarR6_Poisson_CzarnyGeometry>(Rmax, eps, e);
    if (pr == 2 && g == 2 && prof == 1) p.F = std::make_unique<PolarR6_Sonnendrucker_CzarnyGeometry>(Rmax, eps, e);
    if (pr == 2 && g == 2 && prof == 2) p.F = std::make_unique<PolarR6_Zoni_CzarnyGeometry>(Rmax, eps, e);
    if (pr == 2 && g == 2 && prof == 3) p.F = std::make_unique<PolarR6_ZoniShifted_CzarnyGeometry>(Rmax, eps, e);
    if (pr == 2 && g == 2 && prof == 4) p.F = std::make_unique<PolarR6_SonnendruckerGyro_CzarnyGeometry>(Rmax, eps, e);
    if (pr == 2 && g == 2 && prof == 5) p.F = std::make_unique<PolarR6_ZoniGyro_CzarnyGeometry>(Rmax, eps, e);
    if (pr == 2 && g == 2 && prof == 6) p.F = std::make_unique<PolarR6_ZoniShiftedGyro_CzarnyGeometry>(Rmax, eps, e);
    return p;
}
// flux components at a point; du/dr and du/dtheta are supplied (formal derivatives in the engine, finite differences natively)
static void fluxes(const Problem& p, double r, double th, double s, double c, double ur, double ut, double& fr, double& ft, double& adet)
{
    const double Jrr = p.G->dFx_dr(r, th, s, c), Jtr = p.G->dFy_dr(r, th, s, c), Jrt = p.G->dFx_dt(r, th, s, c), Jtt = p.G->dFy_dt(r, th, s, c);
    const double det = Jrr * Jtt - Jrt * Jtr;
    adet = fabs(det);
    const double al = p.P->alpha(r);
    const double Arr = al * (Jtt * Jtt + Jrt * Jrt) / adet, Att = al * (Jtr * Jtr + Jrr * Jrr) / adet, Art = -al * (Jtt * Jtr + Jrt * Jrr) / adet;
    fr = Arr * ur + Art * ut;
    ft = Art * ur + Att * ut;
}
// a: problem (0 CartesianR2, 1 CartesianR6, 2 PolarR6), geometry (0 Circular, 1 Shafranov, 2 Czarny), profile (0..6, see problem())
VENTRY(h_source_term)
{
    Problem p = problem(a[0], a[1], a[2]);
    Pt q = point(false);
    vreach("classes-built");
    const double rhs = p.F->rhs_f(q.r, q.th, q.s, q.c);
    if (vis_symbolic()) {
        const double u = p.U->exact_solution(q.r, q.th, q.s, q.c);
        double fr, ft, adet;
        fluxes(p, q.r, q.th, q.s, q.c, vdiff(u, "r"), vdiff(u, "theta"), fr, ft, adet);
        const double lhs = 0.0 - (vdiff(fr, "r") + vdiff(ft, "theta")) / adet + p.P->beta(q.r) * u;
        vcheck_eq_fd(lhs, rhs, "source-term=-div(alpha*grad(u))+beta*u", a[0] * 32 + a[1] * 8 + a[2], 0.0);
        return;
    }
    // native: the same operator by nested fourth-order central differences (truncation ~ h^4: far below the tolerance of the comparison)
    auto U = [&](double r, double t) { return p.U->exact_solution(r, t, sin(t), cos(t)); };
    const double h = 1e-3, H = 2e-3;
    auto D4 = [](auto&& f, double x, double d) { return (-f(x + 2 * d) + 8.0 * f(x + d) - 8.0 * f(x - d) + f(x - 2 * d)) / (12.0 * d); };
    auto FL = [&](double r, double t, bool radial) {
        double fr, ft, adet;
        const double ur = D4([&](double x) { return U(x, t); }, r, h), ut = D4([&](double x) { return U(r, x); }, t, h);
        fluxes(p, r, t, sin(t), cos(t), ur, ut, fr, ft, adet);
        return radial ? fr : ft;
    };
    double fr0, ft0, adet;
    fluxes(p, q.r, q.th, q.s, q.c, 0.0, 0.0, fr0, ft0, adet);
    const double div = D4([&](double x) { return FL(x, q.th, true); }, q.r, H) + D4([&](double x) { return FL(q.r, x, false); }, q.th, H);
    const double fd = 0.0 - div / adet + p.P->beta(q.r) * U(q.r, q.th);
    vcheck_eq_fd(0.0, rhs, "source-term=-div(alpha*grad(u))+beta*u", a[0] * 32 + a[1] * 8 + a[2], fd);
}
