// C19 — shipped test problems are consistent manufactured solutions (partly): Jacobians = partial derivatives of the
// mapping, beta = 1/alpha for the gyro profiles, boundary data = exact solution on the boundary.
#include "vharness.h"
#include "InputFunctions/DomainGeometry/circularGeometry.h"
#include "InputFunctions/DomainGeometry/shafranovGeometry.h"
#include "InputFunctions/DomainGeometry/czarnyGeometry.h"
#include "InputFunctions/DomainGeometry/culhamGeometry.h"
#include "InputFunctions/DensityProfileCoefficients/sonnendruckerGyroCoefficients.h"
#include "InputFunctions/DensityProfileCoefficients/zoniGyroCoefficients.h"
#include "InputFunctions/DensityProfileCoefficients/zoniShiftedGyroCoefficients.h"
#include "InputFunctions/BoundaryConditions/cartesianR2_Boundary_CircularGeometry.h"
#include "InputFunctions/BoundaryConditions/cartesianR2_Boundary_ShafranovGeometry.h"
#include "InputFunctions/BoundaryConditions/cartesianR2_Boundary_CzarnyGeometry.h"
#include "InputFunctions/BoundaryConditions/cartesianR6_Boundary_CircularGeometry.h"
#include "InputFunctions/BoundaryConditions/cartesianR6_Boundary_ShafranovGeometry.h"
#include "InputFunctions/BoundaryConditions/cartesianR6_Boundary_CzarnyGeometry.h"
#include "InputFunctions/BoundaryConditions/polarR6_Boundary_CircularGeometry.h"
#include "InputFunctions/BoundaryConditions/polarR6_Boundary_ShafranovGeometry.h"
#include "InputFunctions/BoundaryConditions/polarR6_Boundary_CzarnyGeometry.h"
#include "InputFunctions/ExactSolution/cartesianR2_CircularGeometry.h"
#include "InputFunctions/ExactSolution/cartesianR2_ShafranovGeometry.h"
#include "InputFunctions/ExactSolution/cartesianR2_CzarnyGeometry.h"
#include "InputFunctions/ExactSolution/cartesianR6_CircularGeometry.h"
#include "InputFunctions/ExactSolution/cartesianR6_ShafranovGeometry.h"
#include "InputFunctions/ExactSolution/cartesianR6_CzarnyGeometry.h"
#include "InputFunctions/ExactSolution/polarR6_CircularGeometry.h"
#include "InputFunctions/ExactSolution/polarR6_ShafranovGeometry.h"
#include "InputFunctions/ExactSolution/polarR6_CzarnyGeometry.h"
#include <cmath>
#include <memory>

struct Pt { double r, th, s, c; };
// symbolic point: r > 0, theta free, (s, c) = (sin theta, cos theta) as symbols with s^2 + c^2 = 1.
// natively: a random point with the true sine and cosine
static Pt point(bool concrete_r)
{
    Pt p;
    p.r = concrete_r ? 0.65 : vsym_pos("r", 0, 0);
    p.th = vsym("theta", 0, 0);
    if (vis_symbolic()) { p.s = vsym("s", 0, 0); p.c = vsym("c", 0, 0); vassume_eq(p.s * p.s + p.c * p.c, 1.0); }
    else {
        // replay of a solver model: the model fixes (s, c) on the unit circle, theta follows from them; random mode: theta is the input
        const double s_in = vsym("s", 0, 0), c_in = vsym("c", 0, 0);
        if (fabs(s_in * s_in + c_in * c_in - 1.0) < 1e-9) p.th = atan2(s_in, c_in);
        p.s = sin(p.th); p.c = cos(p.th);
    }
    return p;
}
static std::unique_ptr<DomainGeometry> geometry(int g, double Rmax, double p1, double p2)
{
    switch (g) {
    case 0: return std::make_unique<CircularGeometry>(Rmax);
    case 1: return std::make_unique<ShafranovGeometry>(Rmax, p1, p2);
    case 2: return std::make_unique<CzarnyGeometry>(Rmax, p1, p2);
    default: return std::make_unique<CulhamGeometry>(Rmax);
    }
}
// a: geometry (0 circular, 1 Shafranov, 2 Czarny, 3 Culham: theta derivatives only, concrete r), symbolic parameters (0/1)
VENTRY(h_jacobian)
{
    const int gi = a[0];
    const bool symp = a[1] != 0;
    double Rmax = 1.3, p1 = gi == 1 ? 0.3 : 0.3, p2 = gi == 1 ? 0.2 : 1.4;
    if (symp) {
        Rmax = vsym_pos("Rmax", 0, 0);
        p1 = vsym_pos("p1", 0, 0); vassume_lt(p1, 1.0);        // elongation kappa / inverse aspect ratio epsilon in (0,1)
        p2 = vsym_pos("p2", 0, 0);                               // shift delta / ellipticity e > 0
    }
    auto G = geometry(gi, Rmax, p1, p2);
    Pt p = point(gi == 3);
    vreach("geometry-built");
    const double h = 1e-6;
    auto FD = [&](bool fy, bool in_r) {
        double r1 = p.r + (in_r ? h : 0), r0 = p.r - (in_r ? h : 0), t1 = p.th + (in_r ? 0 : h), t0 = p.th - (in_r ? 0 : h);
        double f1 = fy ? G->Fy(r1, t1, sin(t1), cos(t1)) : G->Fx(r1, t1, sin(t1), cos(t1));
        double f0 = fy ? G->Fy(r0, t0, sin(t0), cos(t0)) : G->Fx(r0, t0, sin(t0), cos(t0));
        return (f1 - f0) / (2 * h);
    };
    const double Fx = G->Fx(p.r, p.th, p.s, p.c), Fy = G->Fy(p.r, p.th, p.s, p.c);
    if (gi != 3) {
        vcheck_deriv(Fx, G->dFx_dr(p.r, p.th, p.s, p.c), "r", "dFx_dr=d(Fx)/dr", gi, vis_symbolic() ? 0.0 : FD(false, true));
        vcheck_deriv(Fy, G->dFy_dr(p.r, p.th, p.s, p.c), "r", "dFy_dr=d(Fy)/dr", gi, vis_symbolic() ? 0.0 : FD(true, true));
    }
    vcheck_deriv(Fx, G->dFx_dt(p.r, p.th, p.s, p.c), "theta", "dFx_dt=d(Fx)/dtheta", gi, vis_symbolic() ? 0.0 : FD(false, false));
    vcheck_deriv(Fy, G->dFy_dt(p.r, p.th, p.s, p.c), "theta", "dFy_dt=d(Fy)/dtheta", gi, vis_symbolic() ? 0.0 : FD(true, false));
}

// beta * alpha = 1 for the gyro profiles.  a: profile (0 SonnendruckerGyro, 1 ZoniGyro, 2 ZoniShiftedGyro)
VENTRY(h_gyro)
{
    const double Rmax = vsym_pos("Rmax", 0, 0), r = vsym_pos("r", 0, 0);
    vassume_le(r, Rmax);
    std::unique_ptr<DensityProfileCoefficients> P;
    if (a[0] == 0) P = std::make_unique<SonnendruckerGyroCoefficients>(Rmax, 0.0);
    else if (a[0] == 1) P = std::make_unique<ZoniGyroCoefficients>(Rmax, 0.0);
    else P = std::make_unique<ZoniShiftedGyroCoefficients>(Rmax, 0.0);
    vreach("profile-built");
    vcheck_eq(P->alpha(r) * P->beta(r), 1.0, "beta=1/alpha", a[0]);
    if (a[0] != 0) vcheck_lt(0.0, P->alpha(r), "alpha>0", a[0]);   // (the atan profile needs numeric bounds on atan: not decided)
}

// boundary data = exact solution at every boundary point.  a: problem (0 CartesianR2, 1 CartesianR6, 2 PolarR6), geometry (0..2)
VENTRY(h_boundary)
{
    const double Rmax = 1.3, k = 0.3, d = 0.2, eps = 0.3, e = 1.4;
    std::unique_ptr<BoundaryConditions> B; std::unique_ptr<ExactSolution> U;
    const int pr = a[0], g = a[1];
    if (pr == 0 && g == 0) { B = std::make_unique<CartesianR2_Boundary_CircularGeometry>(Rmax); U = std::make_unique<CartesianR2_CircularGeometry>(Rmax); }
    if (pr == 0 && g == 1) { B = std::make_unique<CartesianR2_Boundary_ShafranovGeometry>(Rmax, k, d); U = std::make_unique<CartesianR2_ShafranovGeometry>(Rmax, k, d); }
    if (pr == 0 && g == 2) { B = std::make_unique<CartesianR2_Boundary_CzarnyGeometry>(Rmax, eps, e); U = std::make_unique<CartesianR2_CzarnyGeometry>(Rmax, eps, e); }
    if (pr == 1 && g == 0) { B = std::make_unique<CartesianR6_Boundary_CircularGeometry>(Rmax); U = std::make_unique<CartesianR6_CircularGeometry>(Rmax); }
    if (pr == 1 && g == 1) { B = std::make_unique<CartesianR6_Boundary_ShafranovGeometry>(Rmax, k, d); U = std::make_unique<CartesianR6_ShafranovGeometry>(Rmax, k, d); }
    if (pr == 1 && g == 2) { B = std::make_unique<CartesianR6_Boundary_CzarnyGeometry>(Rmax, eps, e); U = std::make_unique<CartesianR6_CzarnyGeometry>(Rmax, eps, e); }
    if (pr == 2 && g == 0) { B = std::make_unique<PolarR6_Boundary_CircularGeometry>(Rmax); U = std::make_unique<PolarR6_CircularGeometry>(Rmax); }
    if (pr == 2 && g == 1) { B = std::make_unique<PolarR6_Boundary_ShafranovGeometry>(Rmax, k, d); U = std::make_unique<PolarR6_ShafranovGeometry>(Rmax, k, d); }
    if (pr == 2 && g == 2) { B = std::make_unique<PolarR6_Boundary_CzarnyGeometry>(Rmax, eps, e); U = std::make_unique<PolarR6_CzarnyGeometry>(Rmax, eps, e); }
    Pt p = point(false);
    vreach("classes-built");
    // the boundary-data functions are the trace of the exact solution (checked at every r, which covers both boundaries)
    vcheck_eq(B->u_D(p.r, p.th, p.s, p.c), U->exact_solution(p.r, p.th, p.s, p.c), "u_D=exact-solution", pr * 3 + g);
    vcheck_eq(B->u_D_Interior(p.r, p.th, p.s, p.c), U->exact_solution(p.r, p.th, p.s, p.c), "u_D_Interior=exact-solution", pr * 3 + g);
}
