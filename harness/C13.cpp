// C13 — a solver object can be reused: solve() from an arbitrary leftover object state = solve() from a fresh object.
#include "vstate.h"

static void configure(GMGPolar* g, const int* a)
{
    const int tolmode = a[5];
    if (tolmode != 2) { double t = vsym("tolA", 0, 0); vassume_nonneg(t); g->absolute_tolerance_ = t; } else g->absolute_tolerance_ = std::nullopt;
    if (tolmode != 1) { double t = vsym("tolR", 0, 0); vassume_nonneg(t); g->relative_tolerance_ = t; } else g->relative_tolerance_ = std::nullopt;
    Level& L0 = g->levels_[0];
    for (int i = 0; i < L0.grid().numberOfNodes(); i++) L0.rhs()[i] = vsym("f", i, 0);
}

// a: extrapolation, strategy, DirBC, max_iterations, leftover residual norms (count), tolerance mode, exact solution set, FMG, cycle
VENTRY(h_reuse)
{
    alignas(GMGPolar) static unsigned char buf1[sizeof(GMGPolar)];
    alignas(GMGPolar) static unsigned char buf2[sizeof(GMGPolar)];
    VConfig c;
    c.extrapolation = a[0]; c.strategy = a[1]; c.dirbc = a[2]; c.max_iterations = a[3]; c.with_exact = a[6] != 0; c.fmg = a[7]; c.cycle = a[8];
    c.fmg_iterations = 1;
    GMGPolar* fresh = vmake_state(buf1, c);
    GMGPolar* used  = vmake_state(buf2, c);
    fresh->setup();
    used->setup();
    configure(fresh, a);
    configure(used, a);
    // ---- what earlier solves may have left behind in `used` (setup() does not touch any of it)
    const int nleft = a[4];
    for (int k = 0; k < nleft; k++) used->residual_norms_.push_back(vsym_pos("old_norm", k, 0));
    if (c.with_exact) for (int k = 0; k < nleft; k++) used->exact_errors_.push_back(std::make_pair(vsym("old_err", k, 0), vsym("old_err", k, 1)));
    used->number_of_iterations_           = 7;
    used->mean_residual_reduction_factor_ = vsym("old_rho", 0, 0);
    for (size_t l = 0; l < used->levels_.size(); l++) {
        Level& L = used->levels_[l];
        const int n = L.grid().numberOfNodes();
        for (int i = 0; i < n; i++) {
            L.solution()[i] = vsym("stale", i, 10 * (int)l + 1);
            L.residual()[i] = vsym("stale", i, 10 * (int)l + 2);
            if (L.error_correction().size() == n) L.error_correction()[i] = vsym("stale", i, 10 * (int)l + 3);
        }
    }
    // solve-without-setup history: in COMBINED mode an earlier solve may have switched the smoother
    if (c.extrapolation == 3) used->full_grid_smoothing_ = vchoice("leftover-full-grid-smoothing", 2) != 0;
    vreach("states-built");
    fresh->solve();
    used->solve();
    vreach("both-solved");
    const int it1 = fresh->number_of_iterations_, it2 = used->number_of_iterations_;
    vcheck_true(it1 == it2, "same-iteration-count", 0);
    Level &F = fresh->levels_[0], &U = used->levels_[0];
    for (int i = 0; i < F.grid().numberOfNodes(); i++) vcheck_eq(U.solution()[i], F.solution()[i], "same-solution", i);
    if (it1 > 0 && it2 > 0) vcheck_eq(used->mean_residual_reduction_factor_, fresh->mean_residual_reduction_factor_, "same-reduction-factor", 0);
    if (c.with_exact && !fresh->exact_errors_.empty() && !used->exact_errors_.empty()) {
        vcheck_eq(used->exact_errors_.back().first, fresh->exact_errors_.back().first, "same-exact-error-l2", 0);
        vcheck_eq(used->exact_errors_.back().second, fresh->exact_errors_.back().second, "same-exact-error-inf", 0);
    }
    if (it2 > 0) vcheck_indep(used->mean_residual_reduction_factor_, "old", "statistics-describe-this-solve-only", 0);
}

// setup() again on a used object (different problem size and/or options) = setup() on a fresh object with those options.
// a: second config (extrapolation, strategy, DirBC), first size exponent, second size exponent, first config packed
//    (extrapolation + 4*strategy + 8*DirBC), solve between the two setups (0/1), max_levels option (0: -1 = as many as possible)
VENTRY(h_resetup)
{
    alignas(GMGPolar) static unsigned char buf1[sizeof(GMGPolar)];
    alignas(GMGPolar) static unsigned char buf2[sizeof(GMGPolar)];
    VConfig c2;
    c2.extrapolation = a[0]; c2.strategy = a[1]; c2.dirbc = a[2]; c2.nr_exp = a[4]; c2.ntheta_exp = a[4]; c2.max_iterations = 1;
    c2.max_levels = a[7] == 0 ? -1 : a[7];
    VConfig c1 = c2;
    c1.extrapolation = a[5] & 3; c1.strategy = (a[5] >> 2) & 1; c1.dirbc = (a[5] >> 3) & 1; c1.nr_exp = a[3]; c1.ntheta_exp = a[3];
    GMGPolar* fresh = vmake_state(buf1, c2);
    GMGPolar* used  = vmake_state(buf2, c1);
    for (GMGPolar* g : {fresh, used}) { g->absolute_tolerance_ = std::nullopt; g->relative_tolerance_ = std::nullopt; }
    // ---- the earlier life of `used`
    used->setup();
    if (a[6]) {
        Level& L0 = used->levels_[0];
        for (int i = 0; i < L0.grid().numberOfNodes(); i++) L0.rhs()[i] = vsym("f_old", i, 0);
        used->solve();
    }
    vreach("first-life-done");
    // ---- the user changes options through the setters (plain member writes) and sets the solver up again
    used->nr_exp_ = c2.nr_exp; used->ntheta_exp_ = c2.ntheta_exp;
    used->extrapolation_ = static_cast<ExtrapolationType>(c2.extrapolation);
    used->stencil_distribution_method_ = static_cast<StencilDistributionMethod>(c2.strategy);
    used->DirBC_Interior_ = c2.dirbc != 0;
    used->setup();
    fresh->setup();
    vreach("both-set-up");
    vcheck_true(used->number_of_levels_ == fresh->number_of_levels_, "same-number-of-levels", 0);
    vcheck_true(used->levels_.size() == fresh->levels_.size(), "same-number-of-levels", 1);
    if (used->levels_.size() != fresh->levels_.size()) return;
    for (size_t l = 0; l < fresh->levels_.size(); l++) {
        const PolarGrid &gu = used->levels_[l].grid(), &gf = fresh->levels_[l].grid();
        vcheck_true(gu.nr() == gf.nr() && gu.ntheta() == gf.ntheta() && gu.numberSmootherCircles() == gf.numberSmootherCircles(), "same-level-grids", (int)l);
        if (!(gu.nr() == gf.nr() && gu.ntheta() == gf.ntheta())) return;
    }
    for (GMGPolar* g : {fresh, used}) {
        Level& L0 = g->levels_[0];
        for (int i = 0; i < L0.grid().numberOfNodes(); i++) L0.rhs()[i] = vsym("f", i, 0);
    }
    fresh->solve();
    used->solve();
    vreach("both-solved");
    vcheck_true(fresh->number_of_iterations_ == used->number_of_iterations_, "same-iteration-count", 0);
    Level &F = fresh->levels_[0], &U = used->levels_[0];
    for (int i = 0; i < F.grid().numberOfNodes(); i++) vcheck_eq(U.solution()[i], F.solution()[i], "same-solution", i);
    vcheck_eq(used->mean_residual_reduction_factor_, fresh->mean_residual_reduction_factor_, "same-reduction-factor", 0);
    vcheck_indep(used->levels_[0].solution()[0], "f_old", "result-independent-of-the-earlier-problem", 0);
}
