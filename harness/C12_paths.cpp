// C12 — results do not depend on the thread count: the multi-thread code path of every operator with a distinct
// omp_get_max_threads() > 1 branch equals its single-thread path in exact arithmetic (no-OpenMP build: the multi-thread
// branch is executed in program order; that its loops may run concurrently is C11).
#include "vops.h"
#include "vstate.h"

// a: nr, nt, nC, DirBC, operator (0 residual give, 1 smoother give, 2 extrapolated smoother give, 3 direct solver give, 4 residual take, 5 smoother take), T
VENTRY(h_threads)
{
    VLevelBox b;
    const int op = a[4], T = a[5];
    const bool symbolic_coeffs = (op == 0 || op == 4);
    vbuild_level(b, a[0], a[1], a[2], a[3] != 0, symbolic_coeffs, 1);
    const int n = b.L->grid().numberOfNodes();
    Vector<double> x(n), f(n), r1(n), rT(n), t1(n), tT(n);
    for (int i = 0; i < n; i++) { x[i] = vsym("x", i, 0); f[i] = vsym("f", i, 0); r1[i] = x[i]; rT[i] = x[i]; t1[i] = 0.0; tT[i] = 0.0; }
    vreach("inputs-built");
    switch (op) {
    case 0: case 4: { auto A = vresidual(b, op == 0 ? 1 : 0, 1); auto B = vresidual(b, op == 0 ? 1 : 0, T); A->computeResidual(r1, f, x); B->computeResidual(rT, f, x); break; }
    case 1: case 5: { auto A = vsmoother(b, op == 1 ? 1 : 0, 1); auto B = vsmoother(b, op == 1 ? 1 : 0, T); A->smoothing(r1, f, t1); B->smoothing(rT, f, tT); break; }
    case 2: { auto A = vexsmoother(b, 1, 1); auto B = vexsmoother(b, 1, T); A->extrapolatedSmoothing(r1, f, t1); B->extrapolatedSmoothing(rT, f, tT); break; }
    case 3: { auto A = vdirect(b, 1, 1); auto B = vdirect(b, 1, T); for (int i = 0; i < n; i++) { r1[i] = f[i]; rT[i] = f[i]; } A->solveInPlace(r1); B->solveInPlace(rT); break; }
    }
    vreach("operators-applied");
    for (int i = 0; i < n; i++) vcheck_eq(rT[i], r1[i], "T-threads=1-thread", i);
}

// threads per level: 1 <= threads <= max for every reduction factor in (0,1].  a: max threads, three levels
VENTRY(h_threads_per_level)
{
    VConfig c;
    c.threads = a[0]; c.nr_exp = a[1] ? 4 : 3; c.ntheta_exp = a[1] ? 4 : 3;
    GMGPolar* g = vmake_state(vstate_storage(), c);
    const double fac = vsym_pos("thread_reduction_factor", 0, 0);
    vassume_le(fac, 1.0);
    g->thread_reduction_factor_ = fac;
    g->setup();
    vreach("setup-done");
    for (size_t l = 0; l < g->threads_per_level_.size(); l++) {
        const int t = g->threads_per_level_[l];
        vcheck_true(t >= 1 && t <= c.threads, "1<=threads_per_level<=max", (int)l);
        if (l > 0) vcheck_true(t <= g->threads_per_level_[l - 1], "threads-non-increasing-with-depth", (int)l);
    }
    vcheck_true(g->threads_per_level_[0] == c.threads, "finest-level-uses-all-threads", 0);
}
