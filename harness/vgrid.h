// Shared helpers for harnesses: concrete grid shapes, symbolic spacings (class H), symbolic coefficients (K-sym).
#pragma once
#include "vharness.h"
#include "GMGPolar/gmgpolar.h"
#include <memory>
#include <vector>

// ---- stub input functions (only used to get objects constructed; K-sym overwrites what they produce)
struct VStubGeometry : DomainGeometry {
    double Fx(const double& r, const double& t, const double& s, const double& c) const override { return r * c; }
    double Fy(const double& r, const double& t, const double& s, const double& c) const override { return r * s; }
    double dFx_dr(const double& r, const double& t, const double& s, const double& c) const override { return c; }
    double dFy_dr(const double& r, const double& t, const double& s, const double& c) const override { return s; }
    double dFx_dt(const double& r, const double& t, const double& s, const double& c) const override { return -r * s; }
    double dFy_dt(const double& r, const double& t, const double& s, const double& c) const override { return r * c; }
};
struct VStubCoeff : DensityProfileCoefficients {
    double alpha(const double& r) const override { return 1.0; }
    double beta(const double& r) const override { return 1.0; }
    double getAlphaJump() const override { return 0.5; }
};

// ---- concrete grid of a given shape: non-uniform radii (small dyadic rationals), angles with antipodal partners
inline std::vector<double> vradii(int nr)
{
    static const double hs[] = {0.125, 0.25, 0.0625, 0.1875, 0.125, 0.3125, 0.0625, 0.25, 0.125, 0.1875, 0.0625, 0.25,
                                0.125, 0.25, 0.0625, 0.1875, 0.125, 0.3125, 0.0625, 0.25, 0.125, 0.1875, 0.0625, 0.25,
                                0.125, 0.25, 0.0625, 0.1875, 0.125, 0.3125, 0.0625, 0.25, 0.125, 0.1875, 0.0625, 0.25};
    std::vector<double> r(nr);
    r[0] = 0.125;
    for (int i = 1; i < nr; i++) r[i] = r[i - 1] + hs[(i - 1) % 36];
    return r;
}
inline std::vector<double> vangles(int nt, bool uniform = false)
{
    // first half: fractions of pi with non-uniform steps; second half: partner + pi
    std::vector<double> a(nt + 1);
    int half = nt / 2;
    static const double w[] = {1.0, 2.0, 1.0, 3.0, 2.0, 1.0, 2.0, 3.0, 1.0, 2.0, 1.0, 3.0, 2.0, 1.0, 2.0, 3.0};
    double tot = 0;
    for (int j = 0; j < half; j++) tot += uniform ? 1.0 : w[j % 16];
    double acc = 0;
    for (int j = 0; j < half; j++) {
        a[j] = M_PI * (acc / tot);
        acc += uniform ? 1.0 : w[j % 16];
    }
    for (int j = 0; j < half; j++) a[j + half] = a[j] + M_PI;
    a[nt] = 2 * M_PI;
    return a;
}
// nC < 0: automatic split
inline std::unique_ptr<PolarGrid> vmake_grid(int nr, int nt, int nC, bool uniform_angles = false)
{
    std::vector<double> r = vradii(nr), t = vangles(nt, uniform_angles);
    if (nC < 0) return std::make_unique<PolarGrid>(r, t);
    double split = nC >= nr ? r[nr - 1] + 1.0 : (nC == 0 ? r[0] * 0.5 : r[nC]);
    return std::make_unique<PolarGrid>(r, t, split);
}

// ---- class H: overwrite the coordinate and spacing arrays by symbols under the class invariant
//   r_0 > 0, h_i = r_{i+1} - r_i > 0, k_j > 0, k_{j+nt/2} = k_j  (antipodal periodicity)
inline void vsymbolize_grid(PolarGrid& g, const char* tagr = "h", const char* tagk = "k")
{
    int nr = g.nr(), nt = g.ntheta();
    g.radii_[0] = vsym_pos("r0", 0, 0);
    for (int i = 0; i < nr - 1; i++) {
        g.radial_spacings_[i] = vsym_pos(tagr, i, 0);
        g.radii_[i + 1]       = g.radii_[i] + g.radial_spacings_[i];
    }
    int half = nt / 2;
    for (int j = 0; j < half; j++) {
        g.angular_spacings_[j]        = vsym_pos(tagk, j, 0);
        g.angular_spacings_[j + half] = g.angular_spacings_[j];
    }
    g.angles_[0] = 0.0;
    for (int j = 0; j < nt; j++) g.angles_[j + 1] = g.angles_[j] + g.angular_spacings_[j];
}
// coarse grid = every second node of the (already symbolised) fine grid
inline void vsymbolize_coarse_from_fine(PolarGrid& c, const PolarGrid& f)
{
    for (int i = 0; i < c.nr(); i++) c.radii_[i] = f.radii_[2 * i];
    for (int i = 0; i < c.nr() - 1; i++) c.radial_spacings_[i] = f.radial_spacings_[2 * i] + f.radial_spacings_[2 * i + 1];
    for (int j = 0; j <= c.ntheta(); j++) c.angles_[j] = f.angles_[2 * j];
    for (int j = 0; j < c.ntheta(); j++) c.angular_spacings_[j] = f.angular_spacings_[2 * j] + f.angular_spacings_[2 * j + 1];
}

// ---- K-sym: per-node coefficients as free symbols under the documented assumptions
//   arr > 0, att > 0, detDF != 0 (sign selectable), beta >= 0, alpha > 0, 4 arr att >= art^2 (only where asked)
inline void vsymbolize_cache(LevelCache& lc, const PolarGrid& g, int detsign /*0 free, 1 positive, -1 negative*/,
                             bool spd_constraint = false, int which = 0)
{
    static const char* T[2][8] = {{"arr", "att", "art", "det", "beta", "alpha", "sin", "cos"},
                                  {"c_arr", "c_att", "c_art", "c_det", "c_beta", "c_alpha", "c_sin", "c_cos"}};
    const char** t = T[which];
    int n = g.numberOfNodes();
    for (int i = 0; i < n; i++) {
        if (lc.arr_.size() > 0) {
            lc.arr_[i] = vsym_pos(t[0], i, 0);
            lc.att_[i] = vsym_pos(t[1], i, 0);
            lc.art_[i] = vsym(t[2], i, 0);
            if (detsign > 0) lc.detDF_[i] = vsym_pos(t[3], i, 0);
            else if (detsign < 0) lc.detDF_[i] = -vsym_pos(t[3], i, 0);
            else { lc.detDF_[i] = vsym(t[3], i, 0); vassume_ne(lc.detDF_[i], 0.0); }
            if (spd_constraint) vassume_le(lc.art_[i] * lc.art_[i], 4.0 * lc.arr_[i] * lc.att_[i]);
        }
    }
    for (size_t i = 0; i < lc.coeff_beta_.size(); i++) { lc.coeff_beta_[i] = vsym(t[4], (int)i, 0); vassume_nonneg(lc.coeff_beta_[i]); }
    for (size_t i = 0; i < lc.coeff_alpha_.size(); i++) lc.coeff_alpha_[i] = vsym_pos(t[5], (int)i, 0);
    for (size_t j = 0; j < lc.sin_theta_.size(); j++) {
        lc.sin_theta_[j] = vsym(t[6], (int)j, 0);
        lc.cos_theta_[j] = vsym(t[7], (int)j, 0);
    }
}

// own node numbering, written from the documentation (circles first, angle fastest; then radial lines, radius fastest)
inline int vidx(int nr, int nt, int nC, int ir, int it)
{
    it = ((it % nt) + nt) % nt;
    if (ir < nC) return ir * nt + it;
    return nC * nt + it * (nr - nC) + (ir - nC);
}

// ---- K-num/small: small exact rationals satisfying the documented assumptions (arr, att > 0, 4 arr att >= art^2,
//      detDF != 0 of either sign, beta >= 0); `variant` permutes the pattern
inline void vnumeric_cache(LevelCache& lc, const PolarGrid& g, int variant)
{
    const int n = g.numberOfNodes();
    for (int i = 0; i < n && lc.arr_.size() > 0; i++) {
        const int a = (i * 7 + variant * 3) % 5, b = (i * 5 + variant) % 4, c = (i * 3 + variant * 2) % 7;
        lc.arr_[i]   = 0.5 + 0.25 * a;               // 1/2 .. 3/2
        lc.att_[i]   = 0.75 + 0.25 * b;              // 3/4 .. 3/2
        lc.art_[i]   = 0.125 * (c - 3);              // -3/8 .. 3/8  (art^2 <= 9/64 < 4*1/2*3/4)
        lc.detDF_[i] = ((i + variant) % 3 == 0 ? -1.0 : 1.0) * (0.5 + 0.125 * ((i * 11 + variant) % 6));
    }
    for (size_t i = 0; i < lc.coeff_beta_.size(); i++) lc.coeff_beta_[i] = 0.25 * ((i + variant) % 4);   // 0 .. 3/4
    for (size_t i = 0; i < lc.coeff_alpha_.size(); i++) lc.coeff_alpha_[i] = 0.5 + 0.25 * ((i + variant) % 3);
}
// H-num/small: replace the angular spacings (multiples of pi as doubles) by small rationals with antipodal periodicity
inline void vsmall_angles(PolarGrid& g)
{
    const int nt = g.ntheta(), half = nt / 2;
    static const double w[] = {0.5, 0.75, 0.25, 0.625, 0.375, 0.5, 0.875, 0.25};
    for (int j = 0; j < half; j++) { g.angular_spacings_[j] = w[j % 8]; g.angular_spacings_[j + half] = w[j % 8]; }
    g.angles_[0] = 0.0;
    for (int j = 0; j < nt; j++) g.angles_[j + 1] = g.angles_[j] + g.angular_spacings_[j];
}

// a level with either symbolic (S1/S3) or small-rational numeric (S2) grid and coefficients
struct VLevelBox {
    VStubGeometry geo;
    VStubCoeff co;
    std::unique_ptr<Level> L;
    int nr, nt, nC;
    bool dirbc;
    bool is_dirichlet(int ir) const { return ir == nr - 1 || (ir == 0 && dirbc); }
};
inline void vbuild_level(VLevelBox& b, int nr, int nt, int nC, bool dirbc, bool symbolic_coeffs, int variant, int depth = 0,
                         bool spd_constraint = false, int detsign = 1)
{
    auto grid = vmake_grid(nr, nt, nC);
    auto lc   = std::make_unique<LevelCache>(*grid, b.co, b.geo, true, true);
    if (symbolic_coeffs) { vsymbolize_grid(*grid); vsymbolize_cache(*lc, *grid, detsign, spd_constraint); }
    else { vsmall_angles(*grid); vnumeric_cache(*lc, *grid, variant); }
    b.nr = grid->nr(); b.nt = grid->ntheta(); b.nC = grid->numberSmootherCircles(); b.dirbc = dirbc;
    b.L = std::make_unique<Level>(depth, std::move(grid), std::move(lc), ExtrapolationType::NONE, false);
}
