// Shared helpers for harnesses: concrete grid shapes, symbolic spacings (class H), symbolic coefficients (K-sym).
#pragma once
#include "vharness.h"
#include "GMGPolar/gmgpolar.h"
#include <memory>
#include <vector>

// ---- stub input functions (only used to get objects constructed; K-sym overwrites what they produce)
struct VStubGeometry : DomainGeometry {
    double Fx(const double& r, const double& t, const double& s, const double& c) const override { return r * c; }
    double Fy(const double& r, const double& t, const double& s, const double& c) const override { return r * s; }
    double dFx_dr(const double& r, const double& t, const double& s, const double& c) const override { return c; }
    double dFy_dr(const double& r, const double& t, const double& s, const double& c) const override { return s; }
    double dFx_dt(const double& r, const double& t, const double& s, const double& c) const override { return -r * s; }
    double dFy_dt(const double& r, const double& t, const double& s, const double& c) const override { return r * c; }
};
struct VStubCoeff : DensityProfileCoefficients {
    double alpha(const double& r) const override { return 1.0; }
    double beta(const double& r) const override { return 1.0; }
    double getAlphaJump() const override { return 0.5; }
};

// ---- concrete grid of a given shape: non-uniform radii (small dyadic rationals), angles with antipodal partners
inline std::vector<double> vradii(int nr)
{
    static const double hs[] = {0.125, 0.25, 0.0625, 0.1875, 0.125, 0.3125, 0.0625, 0.25, 0.125, 0.1875, 0.0625, 0.25,
                                0.125, 0.25, 0.0625, 0.1875, 0.125, 0.3125, 0.0625, 0.25, 0.125, 0.1875, 0.0625, 0.25,
                                0.125, 0.25, 0.0625, 0.1875, 0.125, 0.3125, 0.0625, 0.25, 0.125, 0.1875, 0.0625, 0.25};
    std::vector<double> r(nr);
    r[0] = 0.125;
    for (int i = 1; i < nr; i++) r[i] = r[i - 1] + hs[(i - 1) % 36];
    return r;
}
inline std::vector<double> vangles(int nt, bool uniform = false)
{
    // first half: fractions of pi with non-uniform steps; second half: partner + pi
    std::vector<double> a(nt + 1);
    int half = nt / 2;
    static const double w[] = {1.0, 2.0, 1.0, 3.0, 2.0, 1.0, 2.0, 3.0, 1.0, 2.0, 1.0, 3.0, 2.0, 1.0, 2.0, 3.0};
    double tot = 0;
    for (int j = 0; j < half; j++) tot += uniform ? 1.0 : w[j % 16];
    double acc = 0;
    for (int j = 0; j < half; j++) {
        a[j] = M_PI * (acc / tot);
        acc += uniform ? 1.0 : w[j % 16];
    }
    for (int j = 0; j < half; j++) a[j + half] = a[j] + M_PI;
    a[nt] = 2 * M_PI;
    return a;
}
// nC < 0: automatic split
inline std::unique_ptr<PolarGrid> vmake_grid(int nr, int nt, int nC, bool uniform_angles = false)
{
    std::vector<double> r = vradii(nr), t = vangles(nt, uniform_angles);
    if (nC < 0) return std::make_unique<PolarGrid>(r, t);
    double split = nC >= nr ? r[nr - 1] + 1.0 : (nC == 0 ? r[0] * 0.5 : r[nC]);
    return std::make_unique<PolarGrid>(r, t, split);
}

// ---- class H: overwrite the coordinate and spacing arrays by symbols under the class invariant
//   r_0 > 0, h_i = r_{i+1} - r_i > 0, k_j > 0, k_{j+nt/2} = k_j  (antipodal periodicity)
inline void vsymbolize_grid(PolarGrid& g, const char* tagr = "h", const char* tagk = "k")
{
    int nr = g.nr(), nt = g.ntheta();
    g.radii_[0] = vsym_pos("r0", 0, 0);
    for (int i = 0; i < nr - 1; i++) {
        g.radial_spacings_[i] = vsym_pos(tagr, i, 0);
        g.radii_[i + 1]       = g.radii_[i] + g.radial_spacings_[i];
    }
    int half = nt / 2;
    for (int j = 0; j < half; j++) {
        g.angular_spacings_[j]        = vsym_pos(tagk, j, 0);
        g.angular_spacings_[j + half] = g.angular_spacings_[j];
    }
    g.angles_[0] = 0.0;
    for (int j = 0; j < nt; j++) g.angles_[j + 1] = g.angles_[j] + g.angular_spacings_[j];
}
// coarse grid = every second node of the (already symbolised) fine grid
inline void vsymbolize_coarse_from_fine(PolarGrid& c, const PolarGrid& f)
{
    for (int i = 0; i < c.nr(); i++) c.radii_[i] = f.radii_[2 * i];
    for (int i = 0; i < c.nr() - 1; i++) c.radial_spacings_[i] = f.radial_spacings_[2 * i] + f.radial_spacings_[2 * i + 1];
    for (int j = 0; j <= c.ntheta(); j++) c.angles_[j] = f.angles_[2 * j];
    for (int j = 0; j < c.ntheta(); j++) c.angular_spacings_[j] = f.angular_spacings_[2 * j] + f.angular_spacings_[2 * j + 1];
}

// ---- K-sym: per-node coefficients as free symbols under the documented assumptions
//   arr > 0, att > 0, detDF != 0 (sign selectable), beta >= 0, alpha > 0, 4 arr att >= art^2 (only where asked)
inline void vsymbolize_cache(LevelCache& lc, const PolarGrid& g, int detsign /*0 free, 1 positive, -1 negative*/,
                             bool spd_constraint = false, int which = 0)
{
    static const char* T[2][8] = {{"arr", "att", "art", "det", "beta", "alpha", "sin", "cos"},
                                  {"c_arr", "c_att", "c_art", "c_det", "c_beta", "c_alpha", "c_sin", "c_cos"}};
    const char** t = T[which];
    int n = g.numberOfNodes();
    for (int i = 0; i < n; i++) {
        if (lc.arr_.size() > 0) {
            lc.arr_[i] = vsym_pos(t[0], i, 0);
            lc.att_[i] = vsym_pos(t[1], i, 0);
            lc.art_[i] = vsym(t[2], i, 0);
            if (detsign > 0) lc.detDF_[i] = vsym_pos(t[3], i, 0);
            else if (detsign < 0) lc.detDF_[i] = -vsym_pos(t[3], i, 0);
            else { lc.detDF_[i] = vsym(t[3], i, 0); vassume_ne(lc.detDF_[i], 0.0); }
            if (spd_constraint) vassume_le(lc.art_[i] * lc.art_[i], 4.0 * lc.arr_[i] * lc.att_[i]);
        }
    }
    for (size_t i = 0; i < lc.coeff_beta_.size(); i++) { lc.coeff_beta_[i] = vsym(t[4], (int)i, 0); vassume_nonneg(lc.coeff_beta_[i]); }
    for (size_t i = 0; i < lc.coeff_alpha_.size(); i++) lc.coeff_alpha_[i] = vsym_pos(t[5], (int)i, 0);
    for (size_t j = 0; j < lc.sin_theta_.size(); j++) {
        lc.sin_theta_[j] = vsym(t[6], (int)j, 0);
        lc.cos_theta_[j] = vsym(t[7], (int)j, 0);
    }
}

// own node numbering, written from the documentation (circles first, angle fastest; then radial lines, radius fastest)
inline int vidx(int nr, int nt, int nC, int ir, int it)
{
    it = ((it % nt) + nt) % nt;
    if (ir < nC) return ir * nt + it;
    return nC * nt + it * (nr - nC) + (ir - nC);
}
