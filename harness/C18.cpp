// C18 — generated grids are valid, nested and coarsenable (parametric constructor with symbolic R0 < Rmax and
// refinement radius); the grid-file constructor with arbitrary file contents.  Text round trip: not decided (no IR).
#include "vgrid.h"

// the real chooseNumberOfLevels needs a GMGPolar object only for max_levels_: replicate its call on raw storage
static int levels_for(const PolarGrid& g, int max_levels)
{
    alignas(GMGPolar) static unsigned char buf[sizeof(GMGPolar)];
    GMGPolar* s = reinterpret_cast<GMGPolar*>(buf);
    s->max_levels_ = max_levels;
    return s->chooseNumberOfLevels(g);
}

// a: nr_exp, ntheta_exp, anisotropic_factor, divideBy2, refinement-radius mode (0 free symbol, 1 inside [R0,Rmax], 2 the default 0), max_levels
VENTRY(h_generate)
{
    const int nr_exp = a[0], ntheta_exp = a[1], aniso = a[2], div2 = a[3], mode = a[4], max_levels = a[5];
    const double R0 = vsym_pos("R0", 0, 0);
    const double Rmax = vsym("Rmax", 0, 0);
    vassume_lt(R0, Rmax);
    // the constructor's own precondition (an assert in the debug build): R0 and Rmax are not equal up to the tolerance
    // of equals(); stated here with a margin so that the assumption does not depend on floating-point epsilon
    vassume_le(R0 + 0.0009765625, Rmax);
    vassume_le(Rmax, 1048576.0);
    double rr = 0.0;
    if (mode == 0) rr = vsym("refinement_radius", 0, 0);
    else if (mode == 1) { rr = vsym("refinement_radius", 0, 0); vassume_le(R0, rr); vassume_le(rr, Rmax); }
    PolarGrid g(R0, Rmax, nr_exp, ntheta_exp, rr, aniso, div2);
    vreach("constructed");
    const int nr = g.nr(), nt = g.ntheta();
    vout_int(nr, "nr", 0); vout_int(nt, "ntheta", 0);
    vcheck_eq(g.radius(0), R0, "first-radius=R0", 0);
    vcheck_eq(g.radius(nr - 1), Rmax, "last-radius=Rmax", 0);
    // "exactly": also as doubles - the end points must be the given values themselves, not something recomputed from them
    vcheck_bits_eq(g.radius(0), R0, "first-radius-is-R0-bit-for-bit", 0);
    vcheck_bits_eq(g.radius(nr - 1), Rmax, "last-radius-is-Rmax-bit-for-bit", 0);
    for (int i = 0; i + 1 < nr; i++) vcheck_lt(g.radius(i), g.radius(i + 1), "radii-strictly-increasing", i);
    // angles: uniform, antipodal partners
    vcheck_true(nt >= 2 && nt % 2 == 0, "ntheta-even", 0);
    for (int j = 0; j < nt; j++) {
        vcheck_eq(g.theta(j + 1) - g.theta(j), g.theta(1) - g.theta(0), "angles-uniform", j);
        if (j < nt / 2) vcheck_eq(g.theta(j + nt / 2), g.theta(j) + M_PI, "antipodal-partner", j);
    }
    vcheck_eq(g.theta(0), 0.0, "first-angle=0", 0);
    vcheck_eq(g.theta(nt), 2 * M_PI, "last-angle=2pi", 0);
    // fine nodes are midpoints of the next coarser nodes (after the final refinement and every divideBy2 bisection)
    vcheck_true((nr - 1) % 2 == 0, "nr-odd", 0);
    for (int i = 1; i + 1 < nr; i += 2) vcheck_eq(g.radius(i) + g.radius(i), g.radius(i - 1) + g.radius(i + 1), "odd-radial-node-is-midpoint", i);
    for (int j = 1; j < nt; j += 2) vcheck_eq(g.theta(j) + g.theta(j), g.theta(j - 1) + g.theta(j + 1), "odd-angular-node-is-midpoint", j);
    // the grid with one refinement less is the every-second-node subgrid
    if (div2 > 0) {
        PolarGrid c(R0, Rmax, nr_exp, ntheta_exp, rr, aniso, div2 - 1);
        vcheck_true(2 * c.nr() - 1 == nr && 2 * c.ntheta() == nt, "nested-sizes", 0);
        for (int i = 0; i < c.nr() && 2 * i < nr; i++) vcheck_eq(c.radius(i), g.radius(2 * i), "nested-radii", i);
        for (int j = 0; j <= c.ntheta() && 2 * j <= nt; j++) vcheck_eq(c.theta(j), g.theta(2 * j), "nested-angles", j);
    }
    // the number of levels setup reports is admissible
    const int L = levels_for(g, max_levels);
    vreach("levels-chosen");
    vcheck_true(L >= 2, "at-least-two-levels", 0);
    int cnr = nr, cnt = nt;
    for (int l = 1; l < L; l++) {
        vcheck_true((cnr - 1) % 2 == 0 && cnt % 2 == 0, "level-coarsenable", l);
        cnr = (cnr + 1) / 2; cnt = cnt / 2;
    }
    vcheck_true(cnr >= 3 && cnt >= 4 && cnt % 2 == 0, "coarsest-level-is-a-grid", L);   // structural minimum only (the code's own 5 x 4 minimum is not part of the property)
    if (max_levels > 0) vcheck_true(L <= max_levels, "level-cap-respected", 0);
}

// the grid-file constructor with file CONTENT abstracted to an arbitrary sequence (loadVectorFromFile is replaced, in the
// engine only, by "fills the vector with n arbitrary values"): either an exception or a grid satisfying the invariants.
// a: number of radii in the file, number of angles in the file
VENTRY(h_from_files)
{
    PolarGrid g(std::string("radii.txt"), std::string("angles.txt"));
    vreach("constructed");
    const int nr = g.nr(), nt = g.ntheta();
    vcheck_true(nr >= 2 && nt >= 2, "sizes", 0);
    for (int i = 0; i + 1 < nr; i++) vcheck_lt(g.radius(i), g.radius(i + 1), "radii-strictly-increasing", i);
    vcheck_lt(0.0, g.radius(0), "radii-positive", 0);
    for (int j = 0; j < nt; j++) vcheck_lt(g.theta(j), g.theta(j + 1), "angles-strictly-increasing", j);
    vcheck_true(g.numberSmootherCircles() + g.lengthSmootherRadial() == nr, "split-invariant", 0);
    for (int i = 0; i + 1 < nr; i++) vcheck_eq(g.radialSpacing(i), g.radius(i + 1) - g.radius(i), "radial-spacing", i);
    for (int j = 0; j < nt; j++) vcheck_eq(g.angularSpacing(j), g.theta(j + 1) - g.theta(j), "angular-spacing", j);
}

// "admits the number of levels setup reports" for EVERY grid size: the real chooseNumberOfLevels on a grid object whose
// node counts are symbolic integers (the function reads nothing else).  Either it throws, or every level but the coarsest
// can be coarsened (odd number of radial nodes, even number of angles whose half is even) and the coarsest level is still a
// grid (>= 3 radial nodes, an even number >= 4 of angles).   a: max_levels option, upper bound of nr, upper bound of ntheta
VENTRY(h_level_count)
{
    alignas(PolarGrid) static unsigned char gbuf[sizeof(PolarGrid)];
    PolarGrid* g = reinterpret_cast<PolarGrid*>(gbuf);
    const int nr = vsym_int("nr", 2, a[1]), nt = vsym_int("ntheta", 2, a[2]);
    g->nr_ = nr; g->ntheta_ = nt;
    const int L = levels_for(*g, a[0]);
    vreach("levels-chosen");
    vcheck_true(L >= 2, "at-least-two-levels", 0);
    if (a[0] > 0) vcheck_true(L <= a[0], "level-cap-respected", 0);
    int cnr = nr, cnt = nt;
    for (int l = 1; l < L; l++) {
        vcheck_true((cnr - 1) % 2 == 0 && cnt % 2 == 0 && (cnt / 2) % 2 == 0, "level-coarsenable", l);
        cnr = (cnr + 1) / 2; cnt = cnt / 2;
    }
    vcheck_true(cnr >= 3 && cnt >= 4 && cnt % 2 == 0, "coarsest-level-is-a-grid", 0);   // structural minimum only
}
