// C17 — node numbering is a bijection consistent with geometry and periodicity.
#include "vgrid.h"

// a PolarGrid STATE with symbolic sizes under the representation invariant initializeLineSplitting() establishes
static void symbolic_grid(PolarGrid& g, int pow2_exp /* -1: generic ntheta (modulo path); e>=1: ntheta = 2^e (mask path) */)
{
    const int B = 1 << 30;
    const int nr = vsym_int("nr", 2, B);
    const int nt = pow2_exp < 0 ? vsym_int("ntheta", 2, B) : (1 << pow2_exp);
    const int nC = vsym_int("nC", 0, B);
    vassume(nC <= nr);
    // the node count fits an int (the only size assumption): nr * ntheta <= 2^31 - 1, stated without overflowing
    vassume((long long)nr * (long long)nt <= 2147483647LL);
    g.nr_ = nr; g.ntheta_ = nt; g.is_ntheta_PowerOfTwo_ = pow2_exp >= 0;
    g.number_smoother_circles_ = nC;
    g.length_smoother_radial_  = nr - nC;
    g.number_circular_smoother_nodes_ = nC * nt;
    g.number_radial_smoother_nodes_   = (nr - nC) * nt;
}

// a: pow2 exponent (-1 generic)
VENTRY(h_index_roundtrip)
{
    PolarGrid g;
    symbolic_grid(g, a[0]);
    const int nr = g.nr(), nt = g.ntheta(), nC = g.numberSmootherCircles();
    const int r = vsym_int("r", 0, (1 << 30)), t = vsym_int("t", 0, (1 << 30));
    vassume(r < nr); vassume(t < nt);
    const int k = g.index(r, t);
    vreach("indexed");
    vcheck_true(0 <= k && k < g.numberOfNodes(), "index-in-range", 0);
    int r2, t2;
    g.multiIndex(k, r2, t2);
    vcheck_true(r2 == r && t2 == t, "multiIndex(index(r,t))=(r,t)", 0);
    vcheck_true(g.fastIndex(r, t) == k, "fastIndex=index", 0);
    vcheck_true((k < g.numberCircularSmootherNodes()) == (r < nC), "split-partitions-nodes", 0);
    // reference formula written from the documentation
    const int ref = r < nC ? t + nt * r : nC * nt + (r - nC) + (nr - nC) * t;
    vcheck_true(k == ref, "index=documented-numbering", 0);
}
VENTRY(h_multiindex_roundtrip)
{
    PolarGrid g;
    symbolic_grid(g, a[0]);
    const int k = vsym_int("k", 0, 2147483646);
    vassume(k < g.numberOfNodes());
    int r, t;
    g.multiIndex(k, r, t);
    vreach("decoded");
    vcheck_true(0 <= r && r < g.nr() && 0 <= t && t < g.ntheta(), "multiIndex-in-range", 0);
    vcheck_true(g.index(r, t) == k, "index(multiIndex(k))=k", 0);
}
// periodic wrap for any integer offset.  a: pow2 exponent (-1 generic)
VENTRY(h_wrap)
{
    PolarGrid g;
    symbolic_grid(g, a[0]);
    const int nt = g.ntheta();
    const int t = vsym_int("t", -(1 << 30), (1 << 30));
    const int w = g.wrapThetaIndex(t);
    vreach("wrapped");
    vcheck_true(0 <= w && w < nt, "wrap-in-range", 0);
    // w = t (mod ntheta): t - w is a multiple of ntheta
    const int q = vsym_int("q", -(1 << 30), (1 << 30));
    // (existential witness: q = (t - w) / ntheta computed with the code's own division semantics)
    vcheck_true(((long long)t - w) % nt == 0, "wrap-congruent", 0);
    const int m = vsym_int("m", -3, 3);
    const long long shifted = (long long)t + (long long)m * nt;
    vassume(shifted >= -(1LL << 30) && shifted <= (1LL << 30));
    vcheck_true(g.wrapThetaIndex((int)shifted) == w, "wrap-periodic", 0);
    vcheck_true(g.index(0, (int)shifted) == g.index(0, t) || g.nr() == 0, "index-periodic-in-theta", 0);
    (void)q;
}
// is_ntheta_PowerOfTwo_ as the constructors compute it: (n & (n-1)) == 0, for a concrete range of n (bit trick is not a
// symbolic-integer statement); checked concretely for n = 2..4096 against the definition.   a: -
VENTRY(h_pow2_flag)
{
    for (int n = 2; n <= 4096; n++) {
        bool flag = (n & (n - 1)) == 0;
        bool def = false;
        for (int p = 1; p <= n; p *= 2) if (p == n) def = true;
        if (flag != def) vcheck_true(false, "power-of-two-flag", n);
    }
    vreach("flags-compared");
    vcheck_true(true, "power-of-two-flag", 0);
}

// concrete shapes with symbolic coordinates: reference versions, neighbours, spacings.  a: nr, nt, nC
VENTRY(h_shape)
{
    const int nr = a[0], nt = a[1];
    auto gp = vmake_grid(nr, nt, a[2]);
    PolarGrid& g = *gp;
    const int nC = g.numberSmootherCircles();
    vsymbolize_grid(g);
    vreach("grid-built");
    std::vector<int> seen(nr * nt, 0);
    for (int ir = 0; ir < nr; ir++) for (int it = 0; it < nt; it++) {
        const int k = g.index(ir, it);
        vcheck_true(k == vidx(nr, nt, nC, ir, it), "index=documented-numbering", k);
        vcheck_true(g.index(MultiIndex(ir, it)) == k, "reference-index=inline-index", k);
        MultiIndex mi = g.multiIndex(k);
        vcheck_true(mi[0] == ir && mi[1] == it, "reference-multiIndex", k);
        if (k >= 0 && k < nr * nt) seen[k]++;
        std::array<std::pair<int, int>, space_dimension> nb, dg;
        g.adjacentNeighborsOf(MultiIndex(ir, it), nb);
        vcheck_true(nb[0].first == (ir > 0 ? vidx(nr, nt, nC, ir - 1, it) : -1), "neighbour-inward", k);
        vcheck_true(nb[0].second == (ir < nr - 1 ? vidx(nr, nt, nC, ir + 1, it) : -1), "neighbour-outward", k);
        vcheck_true(nb[1].first == vidx(nr, nt, nC, ir, it - 1) && nb[1].second == vidx(nr, nt, nC, ir, it + 1), "neighbours-angular", k);
        g.diagonalNeighborsOf(MultiIndex(ir, it), dg);
        vcheck_true(dg[0].first == (ir > 0 ? vidx(nr, nt, nC, ir - 1, it - 1) : -1) && dg[0].second == (ir < nr - 1 ? vidx(nr, nt, nC, ir + 1, it - 1) : -1), "diagonal-neighbours-lower", k);
        vcheck_true(dg[1].first == (ir > 0 ? vidx(nr, nt, nC, ir - 1, it + 1) : -1) && dg[1].second == (ir < nr - 1 ? vidx(nr, nt, nC, ir + 1, it + 1) : -1), "diagonal-neighbours-upper", k);
        std::array<std::pair<double, double>, space_dimension> d;
        g.adjacentNeighborDistances(MultiIndex(ir, it), d);
        vcheck_eq(d[0].first, ir > 0 ? g.radius(ir) - g.radius(ir - 1) : 0.0, "distance-inward", k);
        vcheck_eq(d[0].second, ir < nr - 1 ? g.radius(ir + 1) - g.radius(ir) : 0.0, "distance-outward", k);
        vcheck_eq(d[1].second, g.theta(it + 1) - g.theta(it), "distance-angular-next", k);
        vcheck_eq(d[1].first, it > 0 ? g.theta(it) - g.theta(it - 1) : g.theta(nt) - g.theta(nt - 1), "distance-angular-previous", k);
        Point pt = g.polarCoordinates(MultiIndex(ir, it));
        vcheck_eq(pt[0], g.radius(ir), "coordinates-r", k);
        vcheck_eq(pt[1], g.theta(it), "coordinates-theta", k);
    }
    for (int k = 0; k < nr * nt; k++) vcheck_true(seen[k] == 1, "bijection-onto-0..N-1", k);
    for (int it = -2 * nt; it <= 2 * nt; it++) vcheck_eq(g.angularSpacing(it), g.angularSpacing(((it % nt) + nt) % nt), "spacing-periodic", it);
}

// circle/radial split for an arbitrary (symbolic) splitting radius and the automatic split; coarsening.  a: nr, nt, mode (0 explicit symbolic radius, 1 automatic)
VENTRY(h_split)
{
    const int nr = a[0], nt = a[1];
    std::vector<double> r = vradii(nr), th = vangles(nt);
    std::unique_ptr<PolarGrid> g;
    double s = 0.0;
    if (a[2] == 0) { s = vsym("split", 0, 0); g = std::make_unique<PolarGrid>(r, th, s); }
    else g = std::make_unique<PolarGrid>(r, th);
    vreach("grid-built");
    const int nC = g->numberSmootherCircles();
    vcheck_true(0 <= nC && nC <= nr && g->lengthSmootherRadial() == nr - nC, "split-invariant", 0);
    vcheck_true(g->numberCircularSmootherNodes() == nC * nt && g->numberRadialSmootherNodes() == (nr - nC) * nt, "split-node-counts", 0);
    if (a[2] == 0)
        for (int i = 0; i < nr; i++) vcheck_true((i < nC) == (r[i] < s), "circles-are-the-radii-below-the-splitting-radius", i);
    else
        vcheck_true(nC >= 2 && nr - nC >= (nr > 5 ? 3 : 2), "automatic-split-leaves-room-for-both-smoothers", 0);
    // coarsening keeps every second node, both boundaries included
    if ((nr - 1) % 2 == 0 && nt % 2 == 0) {
        PolarGrid c = coarseningGrid(*g);
        vcheck_true(c.nr() == (nr + 1) / 2 && c.ntheta() == nt / 2, "coarse-size", 0);
        for (int i = 0; i < c.nr(); i++) vcheck_eq(c.radius(i), g->radius(2 * i), "coarse-radius", i);
        for (int j = 0; j <= c.ntheta(); j++) vcheck_eq(c.theta(j), g->theta(2 * j), "coarse-angle", j);
        vcheck_eq(c.radius(c.nr() - 1), g->radius(nr - 1), "outer-boundary-kept", 0);
        vcheck_eq(c.radius(0), g->radius(0), "inner-boundary-kept", 0);
    }
}
