// C15 — copies and moves of linear-algebra objects behave like the original, whatever the source has done before.
// A history is chosen by vchoice() (each choice forks the path): pre-operations on the source, the copy/move kind,
// then identical probes of source/target/twin, then a modification and a re-probe (independence).
#include "vharness.h"
#include "LinearAlgebra/vector.h"
#include "LinearAlgebra/coo_matrix.h"
#include "LinearAlgebra/csr_matrix.h"
#include "LinearAlgebra/sparseLUSolver.h"
#include "LinearAlgebra/symmetricTridiagonalSolver.h"
#include "LinearAlgebra/diagonalSolver.h"

enum Kind { COPY_CTOR = 0, COPY_ASSIGN_SAME, COPY_ASSIGN_DIFF, COPY_ASSIGN_DEFAULT, MOVE_CTOR, MOVE_ASSIGN_SAME, MOVE_ASSIGN_DIFF, SELF_ASSIGN, NKINDS };

// ---------------------------------------------------------------- tridiagonal solver
typedef SymmetricTridiagonalSolver<double> Tri;
static void tri_fill(Tri& S, int n, bool cyc, const char* tag)
{
    S.is_cyclic(cyc);
    for (int i = 0; i < n; i++) S.main_diagonal(i) = vsym(tag, i, 0);
    for (int i = 0; i < n - 1; i++) S.sub_diagonal(i) = vsym(tag, i, 1);
    if (cyc) S.cyclic_corner_element() = vsym(tag, 0, 2);
}
static void tri_solve(Tri& S, int n, const double* rhs, double* out)
{
    Vector<double> x(n), t1(n), t2(n);
    for (int i = 0; i < n; i++) x[i] = rhs[i];
    S.solveInPlace(x.begin(), t1.begin(), t2.begin());
    for (int i = 0; i < n; i++) out[i] = x[i];
}
// a: n, cyclic
VENTRY(h_tridiag_history)
{
    const int n = a[0]; const bool cyc = a[1] != 0;
    Tri src(n), twin(n);
    tri_fill(src, n, cyc, "m");
    tri_fill(twin, n, cyc, "m"); // same entries: the twin lives the same life and is never copied
    double r[8], o1[8], o2[8], o3[8];
    const int pre = vchoice("pre-solves", 3);
    for (int k = 0; k < pre; k++) {
        for (int i = 0; i < n; i++) r[i] = vsym("pre", i, k);
        tri_solve(src, n, r, o1);
        tri_solve(twin, n, r, o2);
    }
    const int kind = vchoice("kind", NKINDS);
    Tri other_same(n), other_diff(n + 1), other_default;
    tri_fill(other_same, n, cyc, "o"); tri_fill(other_diff, n + 1, !cyc, "p");
    if (vchoice("target-used-before", 2)) { // the assignment target may itself have solved something already
        for (int i = 0; i <= n; i++) r[i] = vsym("tpre", i, 0);
        double tmp[9];
        if (kind == COPY_ASSIGN_SAME || kind == MOVE_ASSIGN_SAME) tri_solve(other_same, n, r, tmp);
        if (kind == COPY_ASSIGN_DIFF || kind == MOVE_ASSIGN_DIFF) tri_solve(other_diff, n + 1, r, tmp);
    }
    Tri* tgt = nullptr; std::unique_ptr<Tri> holder; bool source_alive = true;
    switch (kind) {
    case COPY_CTOR: holder = std::make_unique<Tri>(src); tgt = holder.get(); break;
    case COPY_ASSIGN_SAME: other_same = src; tgt = &other_same; break;
    case COPY_ASSIGN_DIFF: other_diff = src; tgt = &other_diff; break;
    case COPY_ASSIGN_DEFAULT: other_default = src; tgt = &other_default; break;
    case MOVE_CTOR: holder = std::make_unique<Tri>(std::move(src)); tgt = holder.get(); source_alive = false; break;
    case MOVE_ASSIGN_SAME: other_same = std::move(src); tgt = &other_same; source_alive = false; break;
    case MOVE_ASSIGN_DIFF: other_diff = std::move(src); tgt = &other_diff; source_alive = false; break;
    case SELF_ASSIGN: { Tri& alias = src; src = alias; tgt = &src; break; }
    }
    vreach("copied-or-moved");
    vcheck_true(tgt->rows() == n && tgt->columns() == n, "dimension", kind);
    vcheck_true(tgt->is_cyclic() == cyc, "cyclic-flag", kind);
    // probe 1: the same fresh right-hand side on target, twin (and source when it is still alive)
    for (int i = 0; i < n; i++) r[i] = vsym("probe", i, 0);
    tri_solve(*tgt, n, r, o1);
    tri_solve(twin, n, r, o2);
    for (int i = 0; i < n; i++) vcheck_eq(o1[i], o2[i], "target-solves-like-source", i);
    if (source_alive && tgt != &src) {
        tri_solve(src, n, r, o3);
        for (int i = 0; i < n; i++) vcheck_eq(o3[i], o2[i], "source-unchanged-by-copy", i);
    }
    // independence: overwrite the target's data, the source must not notice
    if (source_alive && tgt != &src) {
        for (int i = 0; i < n; i++) tgt->main_diagonal(i) = vsym("w", i, 0);
        for (int i = 0; i < n; i++) r[i] = vsym("probe", i, 1);
        tri_solve(src, n, r, o3);
        tri_solve(twin, n, r, o2);
        for (int i = 0; i < n; i++) vcheck_eq(o3[i], o2[i], "source-independent-of-target", i);
    }
}

// ---------------------------------------------------------------- diagonal solver  a: n
VENTRY(h_diagonal_history)
{
    const int n = a[0];
    typedef DiagonalSolver<double> D;
    D src(n), other_same(n), other_diff(n + 1), other_default;
    double d[8];
    for (int i = 0; i < n; i++) { d[i] = vsym("d", i, 0); src.diagonal(i) = d[i]; other_same.diagonal(i) = vsym("o", i, 0); }
    for (int i = 0; i <= n; i++) other_diff.diagonal(i) = vsym("p", i, 0);
    const int kind = vchoice("kind", NKINDS);
    D* tgt = nullptr; std::unique_ptr<D> holder; bool alive = true;
    switch (kind) {
    case COPY_CTOR: holder = std::make_unique<D>(src); tgt = holder.get(); break;
    case COPY_ASSIGN_SAME: other_same = src; tgt = &other_same; break;
    case COPY_ASSIGN_DIFF: other_diff = src; tgt = &other_diff; break;
    case COPY_ASSIGN_DEFAULT: other_default = src; tgt = &other_default; break;
    case MOVE_CTOR: holder = std::make_unique<D>(std::move(src)); tgt = holder.get(); alive = false; break;
    case MOVE_ASSIGN_SAME: other_same = std::move(src); tgt = &other_same; alive = false; break;
    case MOVE_ASSIGN_DIFF: other_diff = std::move(src); tgt = &other_diff; alive = false; break;
    case SELF_ASSIGN: { D& alias = src; src = alias; tgt = &src; break; }
    }
    vreach("copied-or-moved");
    vcheck_true(tgt->rows() == n, "dimension", kind);
    Vector<double> x(n);
    for (int i = 0; i < n; i++) x[i] = vsym("b", i, 0);
    Vector<double> y = x;
    tgt->solveInPlace(x.begin());
    for (int i = 0; i < n; i++) vcheck_eq(x[i] * d[i], y[i], "target-solves-like-source", i);
    if (alive && tgt != &src) {
        for (int i = 0; i < n; i++) tgt->diagonal(i) = vsym("w", i, 0);
        for (int i = 0; i < n; i++) vcheck_eq(src.diagonal(i), d[i], "source-independent-of-target", i);
    }
    if (!alive) vcheck_true(src.rows() == 0, "moved-from-is-empty", kind);
}

// ---------------------------------------------------------------- Vector   a: n
VENTRY(h_vector_history)
{
    const int n = a[0];
    typedef Vector<double> V;
    V src(n), other_same(n), other_diff(n + 2), other_default;
    double d[8];
    for (int i = 0; i < n; i++) { d[i] = vsym("v", i, 0); src[i] = d[i]; other_same[i] = vsym("o", i, 0); }
    for (int i = 0; i < n + 2; i++) other_diff[i] = vsym("p", i, 0);
    const int kind = vchoice("kind", NKINDS);
    V* tgt = nullptr; std::unique_ptr<V> holder; bool alive = true;
    switch (kind) {
    case COPY_CTOR: holder = std::make_unique<V>(src); tgt = holder.get(); break;
    case COPY_ASSIGN_SAME: other_same = src; tgt = &other_same; break;
    case COPY_ASSIGN_DIFF: other_diff = src; tgt = &other_diff; break;
    case COPY_ASSIGN_DEFAULT: other_default = src; tgt = &other_default; break;
    case MOVE_CTOR: holder = std::make_unique<V>(std::move(src)); tgt = holder.get(); alive = false; break;
    case MOVE_ASSIGN_SAME: other_same = std::move(src); tgt = &other_same; alive = false; break;
    case MOVE_ASSIGN_DIFF: other_diff = std::move(src); tgt = &other_diff; alive = false; break;
    case SELF_ASSIGN: { V& alias = src; src = alias; tgt = &src; break; }
    }
    vreach("copied-or-moved");
    vcheck_true(tgt->size() == n, "size", kind);
    for (int i = 0; i < n; i++) vcheck_eq((*tgt)[i], d[i], "element", i);
    if (alive && tgt != &src) {
        for (int i = 0; i < n; i++) (*tgt)[i] = vsym("w", i, 0);
        for (int i = 0; i < n; i++) vcheck_eq(src[i], d[i], "source-independent-of-target", i);
        for (int i = 0; i < n; i++) src[i] = vsym("w2", i, 0);
        for (int i = 0; i < n; i++) vcheck_eq((*tgt)[i], vsym("w", i, 0), "target-independent-of-source", i);
    }
    if (!alive) vcheck_true(src.size() == 0, "moved-from-is-empty", kind);
    // a chain: copy of the copy
    V again(*tgt);
    for (int i = 0; i < n; i++) vcheck_eq(again[i], (*tgt)[i], "copy-of-target", i);
}

// ---------------------------------------------------------------- COO / CSR / LU    a: which (0 COO, 1 CSR, 2 LU)
template <class M> static void fill3(M&) {}
VENTRY(h_sparse_history)
{
    const int which = a[0];
    const int n = 3;
    using trip = std::tuple<int, int, double>;
    std::vector<trip> e, e2;
    double A[3][3] = {{0}};
    const int pat[5][2] = {{0, 0}, {0, 2}, {1, 1}, {2, 0}, {2, 2}};
    for (int k = 0; k < 5; k++) { A[pat[k][0]][pat[k][1]] = vsym("a", pat[k][0], pat[k][1]); e.emplace_back(pat[k][0], pat[k][1], A[pat[k][0]][pat[k][1]]); }
    for (int i = 0; i < 4; i++) e2.emplace_back(i, i, vsym("q", i, 0));
    e2.emplace_back(3, 0, vsym("q", 9, 0));
    const int kind = vchoice("kind", NKINDS);
    if (which == 0) {
        typedef SparseMatrixCOO<double> M;
        M src(n, n, e), other_same(n, n, e), other_diff(4, 4, e2), other_default;
        src.is_symmetric(true);
        for (int k = 0; k < 5; k++) other_same.value(k) = vsym("o", k, 0);
        M* tgt = nullptr; std::unique_ptr<M> holder; bool alive = true;
        switch (kind) {
        case COPY_CTOR: holder = std::make_unique<M>(src); tgt = holder.get(); break;
        case COPY_ASSIGN_SAME: other_same = src; tgt = &other_same; break;
        case COPY_ASSIGN_DIFF: other_diff = src; tgt = &other_diff; break;
        case COPY_ASSIGN_DEFAULT: other_default = src; tgt = &other_default; break;
        case MOVE_CTOR: holder = std::make_unique<M>(std::move(src)); tgt = holder.get(); alive = false; break;
        case MOVE_ASSIGN_SAME: other_same = std::move(src); tgt = &other_same; alive = false; break;
        case MOVE_ASSIGN_DIFF: other_diff = std::move(src); tgt = &other_diff; alive = false; break;
        case SELF_ASSIGN: { M& alias = src; src = alias; tgt = &src; break; }
        }
        vreach("copied-or-moved");
        vcheck_true(tgt->rows() == n && tgt->columns() == n && tgt->non_zero_size() == 5, "shape", kind);
        vcheck_true(tgt->is_symmetric(), "symmetric-flag", kind);
        for (int k = 0; k < 5; k++) {
            vcheck_true(tgt->row_index(k) == pat[k][0] && tgt->col_index(k) == pat[k][1], "indices", k);
            vcheck_eq(tgt->value(k), A[pat[k][0]][pat[k][1]], "value", k);
        }
        if (alive && tgt != &src) {
            tgt->value(0) = vsym("w", 0, 0);
            vcheck_eq(src.value(0), A[0][0], "source-independent-of-target", 0);
        }
        if (!alive) vcheck_true(src.non_zero_size() == 0 && src.rows() == 0, "moved-from-is-empty", kind);
    }
    else if (which == 1) {
        typedef SparseMatrixCSR<double> M;
        M src(n, n, e), other_same(n, n, e), other_diff(4, 4, e2), other_default;
        for (int k = 0; k < 5; k++) other_same.values_data()[k] = vsym("o", k, 0);
        M* tgt = nullptr; std::unique_ptr<M> holder; bool alive = true;
        switch (kind) {
        case COPY_CTOR: holder = std::make_unique<M>(src); tgt = holder.get(); break;
        case COPY_ASSIGN_SAME: other_same = src; tgt = &other_same; break;
        case COPY_ASSIGN_DIFF: other_diff = src; tgt = &other_diff; break;
        case COPY_ASSIGN_DEFAULT: other_default = src; tgt = &other_default; break;
        case MOVE_CTOR: holder = std::make_unique<M>(std::move(src)); tgt = holder.get(); alive = false; break;
        case MOVE_ASSIGN_SAME: other_same = std::move(src); tgt = &other_same; alive = false; break;
        case MOVE_ASSIGN_DIFF: other_diff = std::move(src); tgt = &other_diff; alive = false; break;
        case SELF_ASSIGN: { M& alias = src; src = alias; tgt = &src; break; }
        }
        vreach("copied-or-moved");
        vcheck_true(tgt->rows() == n && tgt->columns() == n && tgt->non_zero_size() == 5, "shape", kind);
        int k = 0;
        for (int i = 0; i < n; i++) {
            int cnt = 0;
            for (int j = 0; j < n; j++) if (A[i][j] != 0.0 || (i == pat[0][0] && false)) {}
            for (int q = 0; q < 5; q++) if (pat[q][0] == i) cnt++;
            vcheck_true(tgt->row_nz_size(i) == cnt, "row-size", i);
            for (int q = 0; q < cnt; q++, k++) {
                vcheck_true(tgt->row_nz_index(i, q) == pat[k][1], "column-index", k);
                vcheck_eq(tgt->row_nz_entry(i, q), A[pat[k][0]][pat[k][1]], "value", k);
            }
        }
        if (alive && tgt != &src) {
            tgt->row_nz_entry(0, 0) = vsym("w", 0, 0);
            vcheck_eq(src.row_nz_entry(0, 0), A[0][0], "source-independent-of-target", 0);
        }
        if (!alive) vcheck_true(src.non_zero_size() == 0 && src.rows() == 0, "moved-from-is-empty", kind);
    }
    else {
        typedef SparseLUSolver<double> S;
        SparseMatrixCSR<double> Am(n, n, e), Bm(4, 4, e2);
        S src(Am), twin(Am), other_same(Am), other_diff(Bm), other_default;
        const int pre = vchoice("pre-solves", 2);
        for (int p = 0; p < pre; p++) { Vector<double> x(n); for (int i = 0; i < n; i++) x[i] = vsym("pre", i, p); src.solveInPlace(x); }
        S* tgt = nullptr; std::unique_ptr<S> holder; bool alive = true;
        switch (kind) {
        case COPY_CTOR: holder = std::make_unique<S>(src); tgt = holder.get(); break;
        case COPY_ASSIGN_SAME: other_same = src; tgt = &other_same; break;
        case COPY_ASSIGN_DIFF: other_diff = src; tgt = &other_diff; break;
        case COPY_ASSIGN_DEFAULT: other_default = src; tgt = &other_default; break;
        case MOVE_CTOR: holder = std::make_unique<S>(std::move(src)); tgt = holder.get(); alive = false; break;
        case MOVE_ASSIGN_SAME: other_same = std::move(src); tgt = &other_same; alive = false; break;
        case MOVE_ASSIGN_DIFF: other_diff = std::move(src); tgt = &other_diff; alive = false; break;
        case SELF_ASSIGN: { S& alias = src; src = alias; tgt = &src; break; }
        }
        vreach("copied-or-moved");
        Vector<double> x(n), y(n), z(n);
        for (int i = 0; i < n; i++) { x[i] = vsym("b", i, 0); y[i] = x[i]; z[i] = x[i]; }
        tgt->solveInPlace(x);
        twin.solveInPlace(y);
        for (int i = 0; i < n; i++) vcheck_eq(x[i], y[i], "target-solves-like-source", i);
        if (alive && tgt != &src) {
            src.solveInPlace(z);
            for (int i = 0; i < n; i++) vcheck_eq(z[i], y[i], "source-unchanged-by-copy", i);
        }
    }
}
