// C14 — tridiagonal / cyclic tridiagonal / diagonal line solvers: A x = b in exact arithmetic for every matrix with
// non-zero pivots, every solve of a sequence, repeated solves identical; SPD / diagonal dominance => pivots positive.
#include "vharness.h"
#include "LinearAlgebra/vector.h"
#include "LinearAlgebra/symmetricTridiagonalSolver.h"
#include "LinearAlgebra/diagonalSolver.h"
#include <cmath>

struct Tri {
    int n; bool cyc;
    std::vector<double> d, s; double c = 0.0;
};
static Tri fill(SymmetricTridiagonalSolver<double>& S, int n, bool cyc, bool zero_sub = false, bool stale_corner = false)
{
    Tri t; t.n = n; t.cyc = cyc; t.d.resize(n); t.s.resize(n);
    // history: the object was used as a cyclic matrix (the state a constructor leaves) with some corner entry before
    if (stale_corner) { S.is_cyclic(true); S.cyclic_corner_element() = vsym("stale_corner", 0, 0); }
    S.is_cyclic(cyc);
    for (int i = 0; i < n; i++) { t.d[i] = vsym("d", i, 0); S.main_diagonal(i) = t.d[i]; }
    for (int i = 0; i < n - 1; i++) { t.s[i] = (zero_sub && (i % 2)) ? 0.0 : vsym("s", i, 0); S.sub_diagonal(i) = t.s[i]; }
    if (cyc) { t.c = vsym("c", 0, 0); S.cyclic_corner_element() = t.c; }
    return t;
}
// dense product with the ORIGINAL matrix (cyclic: corner entries A[0][n-1] = A[n-1][0] = c, added to s_0 when n = 2)
static double row_times(const Tri& t, int i, const double* x)
{
    const int n = t.n;
    double r = t.d[i] * x[i];
    if (i > 0) r += t.s[i - 1] * x[i - 1];
    if (i < n - 1) r += t.s[i] * x[i + 1];
    if (t.cyc && i == 0) r += t.c * x[n - 1];
    if (t.cyc && i == n - 1) r += t.c * x[0];
    return r;
}

// a: n, cyclic, number of solves, variant (1: zero sub-diagonal pattern, 2: a corner entry left from an earlier cyclic use)
VENTRY(h_tridiag)
{
    const int n = a[0]; const bool cyc = a[1] != 0; const int solves = a[2];
    SymmetricTridiagonalSolver<double> S(n);
    Tri t = fill(S, n, cyc, a[3] == 1, a[3] == 2);
    std::vector<double> first_x(n), first_b(n);
    for (int k = 0; k < solves; k++) {
        Vector<double> x(n), t1(n), t2(n);
        std::vector<double> b(n);
        for (int i = 0; i < n; i++) { b[i] = vsym("b", i, k); x[i] = b[i]; }
        S.solveInPlace(x.begin(), t1.begin(), t2.begin());
        for (int i = 0; i < n; i++) vcheck_eq(row_times(t, i, x.begin()), b[i], "A*solve(b)=b", i + 100 * k);
        if (k == 0) for (int i = 0; i < n; i++) { first_x[i] = x[i]; first_b[i] = b[i]; }
        for (int i = 0; i < n; i++) vout(x[i], "x", i + 100 * k);
    }
    vreach("solved");
    // the same right-hand side again: identical result (same operation sequence => bit-identical)
    Vector<double> x(n), t1(n), t2(n);
    for (int i = 0; i < n; i++) x[i] = first_b[i];
    S.solveInPlace(x.begin(), t1.begin(), t2.begin());
    if (solves == 1)
        for (int i = 0; i < n; i++) vcheck_bits_eq(x[i], first_x[i], "repeated-solve-identical", i);
    else // after the first solve the stored factorisation is used: equal in exact arithmetic and, between later solves, bitwise
        for (int i = 0; i < n; i++) vcheck_eq(x[i], first_x[i], "repeated-solve-equal", i);
    Vector<double> y(n);
    for (int i = 0; i < n; i++) y[i] = first_b[i];
    S.solveInPlace(y.begin(), t1.begin(), t2.begin());
    for (int i = 0; i < n; i++) vcheck_bits_eq(y[i], x[i], "repeated-solve-identical(stored-factorisation)", i);
}

// pivots: under strict diagonal dominance with positive diagonal (mode 0) or positive leading principal minors (mode 1)
// every divisor the solver uses is non-zero (checked by the engine for every recorded division: div_safety) and the
// stored D entries are positive.   a: n, cyclic, mode
VENTRY(h_pivots)
{
    const int n = a[0]; const bool cyc = a[1] != 0; const int mode = a[2];
    SymmetricTridiagonalSolver<double> S(n);
    Tri t = fill(S, n, cyc);
    // dense copy
    std::vector<std::vector<double>> A(n, std::vector<double>(n, 0.0));
    for (int i = 0; i < n; i++) A[i][i] = t.d[i];
    for (int i = 0; i < n - 1; i++) { A[i][i + 1] += t.s[i]; A[i + 1][i] += t.s[i]; }
    if (cyc) { A[0][n - 1] += t.c; if (n > 1) A[n - 1][0] += t.c; if (n == 1) {} }
    if (mode == 0) {
        for (int i = 0; i < n; i++) {
            double off = 0.0;
            for (int j = 0; j < n; j++) if (j != i) off += fabs(A[i][j]);
            vassume_lt(off, A[i][i]);
        }
    }
    else {
        // leading principal minors by fraction-free elimination on a copy (Sylvester's criterion)
        std::vector<std::vector<double>> M = A;
        double prev = 1.0;
        for (int k = 0; k < n; k++) {
            // minor_k = M[k][k] after Bareiss steps
            vassume_pos(M[k][k]);
            for (int i = k + 1; i < n; i++)
                for (int j = k + 1; j < n; j++) M[i][j] = (M[i][j] * M[k][k] - M[i][k] * M[k][j]) / prev;
            prev = M[k][k];
        }
    }
    vreach("premise-stated");
    Vector<double> x(n), t1(n), t2(n);
    for (int i = 0; i < n; i++) x[i] = vsym("b", i, 0);
    S.solveInPlace(x.begin(), t1.begin(), t2.begin());
    if (!cyc)
        for (int i = 0; i < n; i++) vcheck_lt(0.0, S.main_diagonal(i), "pivot-positive", i);
}

// a: n
VENTRY(h_diagonal)
{
    const int n = a[0];
    DiagonalSolver<double> D(n);
    std::vector<double> d(n), b(n);
    for (int i = 0; i < n; i++) { d[i] = vsym("d", i, 0); D.diagonal(i) = d[i]; }
    Vector<double> x(n);
    for (int i = 0; i < n; i++) { b[i] = vsym("b", i, 0); x[i] = b[i]; }
    D.solveInPlace(x.begin());
    vreach("solved");
    for (int i = 0; i < n; i++) vcheck_eq(d[i] * x[i], b[i], "D*solve(b)=b", i);
    Vector<double> y(n);
    for (int i = 0; i < n; i++) y[i] = b[i];
    D.solveInPlace(y.begin());
    for (int i = 0; i < n; i++) vcheck_bits_eq(y[i], x[i], "repeated-solve-identical", i);
}
