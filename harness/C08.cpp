// C08 — grid transfer: R = P^T, optimised = reference, inject(P x) = x, convex weights, linear reproduction.
#include "vgrid.h"

struct Pair {
    VStubGeometry geo; VStubCoeff co;
    std::unique_ptr<Level> fine, coarse;
    std::vector<int> threads{1, 1};
    std::unique_ptr<Interpolation> I;
};
// a[0..4]: nr, nt, nC fine, nC coarse, DirBC ; symbolic spacings; midpoint: assume h_{2m} = h_{2m+1}, k_{2m} = k_{2m+1}
static void make_pair(Pair& p, const int* a, bool midpoint)
{
    const int nr = a[0], nt = a[1], nCf = a[2], nCc = a[3];
    auto fine = vmake_grid(nr, nt, nCf);
    std::unique_ptr<PolarGrid> coarse;
    {
        PolarGrid c0 = coarseningGrid(*fine);
        if (nCc >= 0) coarse = std::make_unique<PolarGrid>(c0.radii(), c0.angles(), nCc >= c0.nr() ? c0.radius(c0.nr() - 1) + 1.0 : (nCc == 0 ? c0.radius(0) * 0.5 : c0.radius(nCc)));
        else coarse = std::make_unique<PolarGrid>(c0);
    }
    vsymbolize_grid(*fine);
    if (midpoint) {
        for (int i = 0; i + 1 < nr - 1; i += 2) {
            fine->radial_spacings_[i + 1] = fine->radial_spacings_[i];
            fine->radii_[i + 2]           = fine->radii_[i + 1] + fine->radial_spacings_[i + 1];
        }
        for (int i = 0; i + 1 < nr; i++) fine->radii_[i + 1] = fine->radii_[i] + fine->radial_spacings_[i];
        for (int j = 0; j + 1 < nt; j += 2) fine->angular_spacings_[j + 1] = fine->angular_spacings_[j];
        for (int j = 0; j < nt; j++) fine->angles_[j + 1] = fine->angles_[j] + fine->angular_spacings_[j];
    }
    vsymbolize_coarse_from_fine(*coarse, *fine);
    auto lcf = std::make_unique<LevelCache>(*fine, p.co, p.geo, true, true);
    auto lcc = std::make_unique<LevelCache>(*coarse, p.co, p.geo, true, true);
    p.fine   = std::make_unique<Level>(0, std::move(fine), std::move(lcf), ExtrapolationType::NONE, false);
    p.coarse = std::make_unique<Level>(1, std::move(coarse), std::move(lcc), ExtrapolationType::NONE, false);
    p.I      = std::make_unique<Interpolation>(p.threads, a[4] != 0);
}

// a: nr, nt, nCf, nCc, DirBC, extrapolated(0/1)
VENTRY(h_transfer)
{
    Pair p; make_pair(p, a, false);
    const bool ex = a[5] != 0;
    const Level &F = *p.fine, &C = *p.coarse;
    const int nf = F.grid().numberOfNodes(), nc = C.grid().numberOfNodes();
    Vector<double> x(nc), y(nf), Px(nf), Px0(nf), Ry(nc), Ry0(nc), inj(nc);
    for (int i = 0; i < nc; i++) x[i] = vsym("x", i, 0);
    for (int i = 0; i < nf; i++) y[i] = vsym("y", i, 0);
    if (ex) { p.I->applyExtrapolatedProlongation(C, F, Px, x); p.I->applyExtrapolatedProlongation0(C, F, Px0, x);
              p.I->applyExtrapolatedRestriction(F, C, Ry, y); p.I->applyExtrapolatedRestriction0(F, C, Ry0, y); }
    else { p.I->applyProlongation(C, F, Px, x); p.I->applyProlongation0(C, F, Px0, x);
           p.I->applyRestriction(F, C, Ry, y); p.I->applyRestriction0(F, C, Ry0, y); }
    vreach("operators-applied");
    for (int i = 0; i < nf; i++) vcheck_eq(Px[i], Px0[i], "prolongation:optimised=reference", i);
    for (int i = 0; i < nc; i++) vcheck_eq(Ry[i], Ry0[i], "restriction:optimised=reference", i);
    p.I->applyInjection(F, C, inj, Px);
    for (int i = 0; i < nc; i++) vcheck_eq(inj[i], x[i], "inject(P*x)=x", i);
    // coarse values are copied
    for (int ir = 0; ir < C.grid().nr(); ir++)
        for (int it = 0; it < C.grid().ntheta(); it++)
            vcheck_eq(Px[F.grid().index(2 * ir, 2 * it)], x[C.grid().index(ir, it)], "coarse-values-copied", C.grid().index(ir, it));
    // R = P^T, row by row: column c of P from a unit vector; then (R y)_c = sum_f P_fc y_f
    Vector<double> e(nc), col(nf), ones(nc), Pones(nf);
    for (int c = 0; c < nc; c++) {
        for (int i = 0; i < nc; i++) e[i] = (i == c) ? 1.0 : 0.0;
        if (ex) p.I->applyExtrapolatedProlongation(C, F, col, e); else p.I->applyProlongation(C, F, col, e);
        double s = 0.0;
        for (int f = 0; f < nf; f++) {
            s += col[f] * y[f];
            vcheck_le(0.0, col[f], "weights-nonnegative", f * nc + c);
        }
        vcheck_eq(Ry[c], s, "restriction=prolongation^T", c);
    }
    for (int i = 0; i < nc; i++) ones[i] = 1.0;
    if (ex) p.I->applyExtrapolatedProlongation(C, F, Pones, ones); else p.I->applyProlongation(C, F, Pones, ones);
    for (int f = 0; f < nf; f++) vcheck_eq(Pones[f], 1.0, "weights-sum-to-one", f);
}

// linear reproduction.  a: nr, nt, nCf, nCc, DirBC, extrapolated, midpoint-assumption
VENTRY(h_linear)
{
    Pair p; make_pair(p, a, a[6] != 0);
    const bool ex = a[5] != 0;
    const Level &F = *p.fine, &C = *p.coarse;
    const PolarGrid &fg = F.grid(), &cg = C.grid();
    const int nf = fg.numberOfNodes(), nc = cg.numberOfNodes();
    const double A = vsym("A", 0, 0), B = vsym("B", 0, 0);
    Vector<double> x(nc), Px(nf);
    // linear in r
    for (int ir = 0; ir < cg.nr(); ir++) for (int it = 0; it < cg.ntheta(); it++) x[cg.index(ir, it)] = A + B * cg.radius(ir);
    if (ex) p.I->applyExtrapolatedProlongation(C, F, Px, x); else p.I->applyProlongation(C, F, Px, x);
    vreach("prolongated");
    for (int ir = 0; ir < fg.nr(); ir++) for (int it = 0; it < fg.ntheta(); it++)
        vcheck_eq(Px[fg.index(ir, it)], A + B * fg.radius(ir), "linear-in-r-reproduced", fg.index(ir, it));
    // linear in theta (away from the periodic seam: fine angles below the last coarse angle)
    for (int ir = 0; ir < cg.nr(); ir++) for (int it = 0; it < cg.ntheta(); it++) x[cg.index(ir, it)] = A + B * cg.theta(it);
    if (ex) p.I->applyExtrapolatedProlongation(C, F, Px, x); else p.I->applyProlongation(C, F, Px, x);
    for (int ir = 0; ir < fg.nr(); ir++) for (int it = 0; it < fg.ntheta() - 1; it++)
        vcheck_eq(Px[fg.index(ir, it)], A + B * fg.theta(it), "linear-in-theta-reproduced", fg.index(ir, it));
}
