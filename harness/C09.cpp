// C09 — FMG interpolation weights (S1) and the nested-iteration start-up (S2).
#include "vstate.h"
#include "DirectSolver/DirectSolverGiveCustomLU/directSolverGiveCustomLU.h"
#include "DirectSolver/DirectSolverTakeCustomLU/directSolverTakeCustomLU.h"

static double cubic(const double* c, double t, int degree) { double v = c[0]; double p = 1.0; for (int d = 1; d <= degree; d++) { p = p * t; v = v + c[d] * p; } return v; }

// one target fine node per run: coarse values are a (tensor) polynomial in LOCAL signed distances on exactly the
// neighbours the rule may use and unconstrained symbols everywhere else; the result must be the polynomial's value at 0.
// a: nr, nt, nCf, nCc, DirBC, target i_r, target i_theta
VENTRY(h_fmg_node)
{
    const int nr = a[0], nt = a[1], nCf = a[2], nCc = a[3], ir = a[5], it = a[6];
    VStubGeometry geo; VStubCoeff co;
    auto fine = vmake_grid(nr, nt, nCf);
    std::unique_ptr<PolarGrid> coarse;
    {
        PolarGrid c0 = coarseningGrid(*fine);
        if (nCc >= 0) coarse = std::make_unique<PolarGrid>(c0.radii(), c0.angles(), nCc >= c0.nr() ? c0.radius(c0.nr() - 1) + 1.0 : (nCc == 0 ? c0.radius(0) * 0.5 : c0.radius(nCc)));
        else coarse = std::make_unique<PolarGrid>(c0);
    }
    vsymbolize_grid(*fine);
    const bool next_to_boundary = (ir == 1 || ir == nr - 2);
    if (next_to_boundary) {   // the linear fallback is exact for linear functions where the fine node is the midpoint (cf. F1)
        fine->radial_spacings_[ir] = fine->radial_spacings_[ir - 1];
        for (int i = 0; i + 1 < nr; i++) fine->radii_[i + 1] = fine->radii_[i] + fine->radial_spacings_[i];
    }
    vsymbolize_coarse_from_fine(*coarse, *fine);
    const int ncr = coarse->nr(), nct = coarse->ntheta(), nc = coarse->numberOfNodes(), nf = fine->numberOfNodes();
    const PolarGrid& fg = *fine; const PolarGrid& cg = *coarse;
    // radial neighbours and local distances
    int rn[4]; double rho[4]; int nrad; int rdeg;
    if (!(ir & 1)) { nrad = 1; rn[0] = ir / 2; rho[0] = 0.0; rdeg = 0; }
    else if (next_to_boundary) { nrad = 2; rn[0] = (ir - 1) / 2; rn[1] = (ir + 1) / 2; rho[0] = 0.0 - fg.radial_spacings_[ir - 1]; rho[1] = fg.radial_spacings_[ir]; rdeg = 1; }
    else {
        nrad = 4; const int m = (ir - 1) / 2; rn[0] = m - 1; rn[1] = m; rn[2] = m + 1; rn[3] = m + 2;
        rho[1] = 0.0 - fg.radial_spacings_[ir - 1]; rho[0] = rho[1] - cg.radial_spacings_[m - 1];
        rho[2] = fg.radial_spacings_[ir]; rho[3] = rho[2] + cg.radial_spacings_[m + 1]; rdeg = 3;
    }
    int tn[4]; double sig[4]; int nang; int tdeg;
    auto wrapc = [&](int j) { return ((j % nct) + nct) % nct; };
    auto kf = [&](int j) { return fg.angular_spacings_[((j % nt) + nt) % nt]; };
    auto kc = [&](int j) { return cg.angular_spacings_[wrapc(j)]; };
    if (!(it & 1)) { nang = 1; tn[0] = it / 2; sig[0] = 0.0; tdeg = 0; }
    else {
        nang = 4; const int m = (it - 1) / 2; tn[0] = wrapc(m - 1); tn[1] = wrapc(m); tn[2] = wrapc(m + 1); tn[3] = wrapc(m + 2);
        sig[1] = 0.0 - kf(it - 1); sig[0] = sig[1] - kc(m - 1); sig[2] = kf(it); sig[3] = sig[2] + kc(m + 1); tdeg = 3;
    }
    double q[4], p[4];
    for (int d = 0; d < 4; d++) { q[d] = vsym("q", d, 0); p[d] = vsym("p", d, 0); }
    auto lcf = std::make_unique<LevelCache>(*fine, co, geo, true, true);
    auto lcc = std::make_unique<LevelCache>(*coarse, co, geo, true, true);
    Level F(0, std::move(fine), std::move(lcf), ExtrapolationType::NONE, true);
    Level C(1, std::move(coarse), std::move(lcc), ExtrapolationType::NONE, true);
    std::vector<int> thr{1, 1};
    Interpolation I(thr, a[4] != 0);
    Vector<double> x(nc), res(nf);
    if (nrad == 4 && nang == 4) {
        // tensor case, decomposed: with separable data a_i * b_j on the 4 x 4 neighbours (unconstrained elsewhere) the
        // result is the product of the radial 1-D rule (read at the even-theta neighbour, same radial weights) and the
        // angular 1-D rule (read at the even-r neighbour, same angular weights); both 1-D rules are proved cubic-exact
        // at those nodes by their own runs, so tensor cubics are reproduced.
        double av[4], bv[4];
        for (int d = 0; d < 4; d++) { av[d] = vsym("a", d, 0); bv[d] = vsym("b", d, 0); }
        for (int i = 0; i < nc; i++) x[i] = vsym("w", i, 0);
        for (int i = 0; i < 4; i++) for (int j = 0; j < 4; j++) x[C.grid().index(rn[i], tn[j])] = av[i] * bv[j];
        I.applyFMGInterpolation(C, F, res, x);
        Vector<double> x2(nc), res2(nf), x3(nc), res3(nf);
        for (int i = 0; i < nc; i++) { x2[i] = vsym("w", i, 1); x3[i] = vsym("w", i, 2); }
        for (int i = 0; i < 4; i++) x2[C.grid().index(rn[i], (it - 1) / 2)] = av[i];
        for (int j = 0; j < 4; j++) x3[C.grid().index((ir - 1) / 2, tn[j])] = bv[j];
        I.applyFMGInterpolation(C, F, res2, x2);
        I.applyFMGInterpolation(C, F, res3, x3);
        vreach("interpolated");
        vcheck_eq(res[F.grid().index(ir, it)], res2[F.grid().index(ir, it - 1)] * res3[F.grid().index(ir - 1, it)], "fmg-tensor=radial-rule*angular-rule", F.grid().index(ir, it));
        return;
    }
    for (int i = 0; i < nc; i++) x[i] = vsym("w", i, 0);          // unconstrained everywhere ...
    for (int i = 0; i < nrad; i++) for (int j = 0; j < nang; j++)   // ... except on the neighbours the rule may use
        x[C.grid().index(rn[i], tn[j])] = cubic(q, rho[i], rdeg) * cubic(p, sig[j], tdeg);
    I.applyFMGInterpolation(C, F, res, x);
    vreach("interpolated");
    vcheck_eq(res[F.grid().index(ir, it)], q[0] * p[0], (nrad == 1 && nang == 1) ? "coarse-value-returned" : (next_to_boundary ? "fmg-linear-fallback+theta-cubic" : "fmg-cubic-reproduced"), F.grid().index(ir, it));
    if (next_to_boundary && (ir & 1)) {
        // the fallback uses exactly its two radial neighbours with non-negative weights summing to one
        Vector<double> e(nc), r2(nf);
        for (int k = 0; k < 2; k++) {
            for (int i = 0; i < nc; i++) e[i] = 0.0;
            if (!(it & 1)) e[C.grid().index(rn[k], tn[0])] = 1.0;
            else for (int j = 0; j < nang; j++) e[C.grid().index(rn[k], tn[j])] = 1.0;
            I.applyFMGInterpolation(C, F, r2, e);
            vcheck_le(0.0, r2[F.grid().index(ir, it)], "fallback-weight-nonnegative", k);
        }
    }
}

// start-up: FMG_ = true, max_iterations_ = 0; every work vector of every level pre-filled with stale symbols.
// a: levels3, FMG iterations, FMG cycle, extrapolation, strategy, DirBC, geometry, profile
VENTRY(h_start)
{
    alignas(GMGPolar) static unsigned char buf[sizeof(GMGPolar)];
    VConfig c;
    c.nr_exp = a[0] ? 4 : 3; c.ntheta_exp = a[0] ? 4 : 3; c.fmg = 1; c.fmg_iterations = a[1]; c.fmg_cycle = a[2]; c.extrapolation = a[3];
    c.strategy = a[4]; c.dirbc = a[5]; c.geometry = a[6]; c.profile = a[7]; c.max_iterations = 0;
    GMGPolar* g = vmake_state(buf, c);
    g->setup();
    const int L = (int)g->levels_.size();
    // symbolic problem data on every level (the right-hand sides setup() built are overwritten), stale work vectors
    for (int l = 0; l < L; l++) {
        Level& lev = g->levels_[l];
        const int n = lev.grid().numberOfNodes();
        for (int i = 0; i < n; i++) {
            lev.rhs()[i]      = vsym("f", i, l);
            lev.solution()[i] = vsym("stale", i, 10 * l + 1);
            lev.residual()[i] = vsym("stale", i, 10 * l + 2);
            if (lev.error_correction().size() == n) lev.error_correction()[i] = vsym("stale", i, 10 * l + 3);
        }
    }
    vreach("setup-done");
    g->solve();
    vreach("solve-done");
    Level& L0 = g->levels_[0];
    const int n0 = L0.grid().numberOfNodes();
    for (int i = 0; i < n0; i++) vcheck_indep(L0.solution()[i], "stale", "start-is-a-function-of-the-problem-data-only", i);
    if (c.fmg_iterations == 0) {
        // oracle: coarsest direct solve (other strategy's solver), then FMG interpolation level by level
        const DomainGeometry& geo = *g->domain_geometry_;
        const DensityProfileCoefficients& co = *g->density_profile_coefficients_;
        Level& Lc = g->levels_[L - 1];
        const int ncn = Lc.grid().numberOfNodes();
        Vector<double> cur(ncn);
        for (int i = 0; i < ncn; i++) cur[i] = vsym("f", i, L - 1);
        std::unique_ptr<DirectSolver> D;
        if (c.strategy == 1) D = std::make_unique<DirectSolverTakeCustomLU>(Lc.grid(), Lc.levelCache(), geo, co, c.dirbc != 0, 1);
        else D = std::make_unique<DirectSolverGiveCustomLU>(Lc.grid(), Lc.levelCache(), geo, co, c.dirbc != 0, 1);
        D->solveInPlace(cur);
        std::vector<int> thr(L, 1);
        Interpolation I(thr, c.dirbc != 0);
        for (int l = L - 1; l > 0; l--) {
            Vector<double> finer(g->levels_[l - 1].grid().numberOfNodes());
            I.applyFMGInterpolation(g->levels_[l], g->levels_[l - 1], finer, cur);
            cur = finer;
        }
        for (int i = 0; i < n0; i++) vcheck_eq(L0.solution()[i], cur[i], "start=interpolated-coarse-solution", i);
    }
    else {
        // oracle: the nested iteration written out on a second solver object — coarsest direct solve, then per level
        // FMG interpolation followed by FMG_iterations cycles of the CONFIGURED type (extrapolated variant on level 0 only)
        alignas(GMGPolar) static unsigned char buf2[sizeof(GMGPolar)];
        GMGPolar* h = vmake_state(buf2, c);
        h->setup();
        for (int l = 0; l < L; l++) {
            Level& lev = h->levels_[l];
            const int n = lev.grid().numberOfNodes();
            for (int i = 0; i < n; i++) {
                lev.rhs()[i] = vsym("f", i, l); lev.solution()[i] = 0.0; lev.residual()[i] = 0.0;
                if (lev.error_correction().size() == n) lev.error_correction()[i] = 0.0;
            }
        }
        Level& Hc = h->levels_[L - 1];
        Hc.solution() = Hc.rhs();
        Hc.directSolveInPlace(Hc.solution());
        std::vector<int> thr(L, 1);
        Interpolation I(thr, c.dirbc != 0);
        for (int l = L - 1; l > 0; l--) {
            Level& fine = h->levels_[l - 1];
            I.applyFMGInterpolation(h->levels_[l], fine, fine.solution(), h->levels_[l].solution());
            for (int k = 0; k < c.fmg_iterations; k++) {
                const bool ex = (l - 1 == 0) && c.extrapolation != 0;
                if (c.fmg_cycle == 0) { if (ex) h->implicitlyExtrapolatedMultigrid_V_Cycle(l - 1, fine.solution(), fine.rhs(), fine.residual()); else h->multigrid_V_Cycle(l - 1, fine.solution(), fine.rhs(), fine.residual()); }
                else if (c.fmg_cycle == 1) { if (ex) h->implicitlyExtrapolatedMultigrid_W_Cycle(l - 1, fine.solution(), fine.rhs(), fine.residual()); else h->multigrid_W_Cycle(l - 1, fine.solution(), fine.rhs(), fine.residual()); }
                else { if (ex) h->implicitlyExtrapolatedMultigrid_F_Cycle(l - 1, fine.solution(), fine.rhs(), fine.residual()); else h->multigrid_F_Cycle(l - 1, fine.solution(), fine.rhs(), fine.residual()); }
            }
        }
        for (int i = 0; i < n0; i++) vcheck_eq(L0.solution()[i], h->levels_[0].solution()[i], "start=nested-iteration(configured-cycle,configured-count)", i);
    }
}
