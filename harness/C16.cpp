// C16 — SparseLUSolver: A x = b for every pattern / column order / stored zero with non-vanishing pivots.
#include "vharness.h"
#include "LinearAlgebra/sparseLUSolver.h"
#include <cmath>

// a: n, pattern bits (off-diagonal position p = i*n+j stored iff bit set; diagonal always stored), column order
//    (0 ascending, 1 descending, 2 rotated by row, 3 diagonal last), constructor (0 triplets, 1 raw arrays, 2 nz_per_row + fill),
//    number of right-hand sides, premise (0 none: pivots are premises; 1 strict row diagonal dominance, positive diagonal, margin 1e-9;
//    2 every pivot of the elimination without pivoting at least 1e-9 in modulus)
VENTRY(h_lu)
{
    const int n = a[0]; const unsigned pat = (unsigned)a[1]; const int order = a[2], ctor = a[3], nrhs = a[4], premise = a[5];
    std::vector<std::vector<double>> A(n, std::vector<double>(n, 0.0));
    std::vector<std::vector<int>> cols(n);
    for (int i = 0; i < n; i++) {
        std::vector<int> c;
        for (int j = 0; j < n; j++)
            if (j == i || (pat >> (i * n + j)) & 1u) c.push_back(j);
        if (order == 1) std::reverse(c.begin(), c.end());
        else if (order == 2) std::rotate(c.begin(), c.begin() + (i % (int)c.size()), c.end());
        else if (order == 3) { c.erase(std::find(c.begin(), c.end(), i)); c.push_back(i); }
        cols[i] = c;
        for (int j : c) A[i][j] = vsym("a", i, j);
    }
    if (premise == 1)
        for (int i = 0; i < n; i++) {
            double off = 0.0;
            for (int j = 0; j < n; j++) if (j != i) off += fabs(A[i][j]);
            vassume_le(off + 1e-9, A[i][i]);   // strict dominance with a margin above the solver's 1e-12 pivot guard
        }
    if (premise == 2) {
        // "admits an LU factorisation without pivoting": every pivot of the harness's own dense elimination is non-zero, with a
        // margin above the solver's 1e-12 guard.  Then the solver must return (its exit path is infeasible), also when an entry of
        // the matrix's own diagonal is zero.
        std::vector<std::vector<double>> M = A;
        for (int k = 0; k < n; k++) {
            vassume_le(1e-9, fabs(M[k][k]));
            for (int i = k + 1; i < n; i++) {
                const double l = M[i][k] / M[k][k];
                for (int j = k; j < n; j++) M[i][j] = M[i][j] - l * M[k][j];
            }
        }
    }
    using triplet = SparseMatrixCSR<double>::triplet_type;
    std::unique_ptr<SparseMatrixCSR<double>> M;
    if (ctor == 0) {
        std::vector<triplet> e;
        for (int i = 0; i < n; i++) for (int j : cols[i]) e.emplace_back(i, j, A[i][j]);
        M = std::make_unique<SparseMatrixCSR<double>>(n, n, e);
    }
    else if (ctor == 1) {
        std::vector<double> v; std::vector<int> ci, rs(1, 0);
        for (int i = 0; i < n; i++) { for (int j : cols[i]) { v.push_back(A[i][j]); ci.push_back(j); } rs.push_back((int)v.size()); }
        M = std::make_unique<SparseMatrixCSR<double>>(n, n, v, ci, rs);
    }
    else {
        std::vector<int> cnt(n);
        for (int i = 0; i < n; i++) cnt[i] = (int)cols[i].size();
        M = std::make_unique<SparseMatrixCSR<double>>(n, n, [&](int i) { return cnt[i]; });
        for (int i = 0; i < n; i++)
            for (int k = 0; k < cnt[i]; k++) { M->row_nz_index(i, k) = cols[i][k]; M->row_nz_entry(i, k) = A[i][cols[i][k]]; }
    }
    SparseLUSolver<double> S(*M);
    vreach("factorised");
    for (int r = 0; r < nrhs; r++) {
        Vector<double> b(n), x(n);
        for (int i = 0; i < n; i++) { b[i] = vsym("b", i, r); x[i] = b[i]; }
        S.solveInPlace(x);
        for (int i = 0; i < n; i++) {
            double s = 0.0;
            for (int j = 0; j < n; j++) s += A[i][j] * x[j];
            vcheck_eq(s, b[i], "A*solve(b)=b", i + 10 * r);
            vout(x[i], "x", i + 10 * r);
        }
    }
    vreach("solved");
}
