// Harness API (DESIGN.md 3.4).  Implemented twice: inside the symbolic engine (llsym/ext.py) and natively
// (runtime/vrt.cpp) for the differential validation and for counterexample replay.
#pragma once
extern "C" {
double vsym(const char* family, int i, int j);      // fresh real input
double vsym_pos(const char* family, int i, int j);  // fresh real input assumed > 0
int vsym_int(const char* name, int lo, int hi);     // symbolic integer in [lo,hi]
int vchoice(const char* name, int n);               // concrete choice in [0,n): forks (history exploration)
void vassume(bool c);
void vassume_pos(double x);
void vassume_nonneg(double x);
void vassume_ne(double a, double b);
void vassume_eq(double a, double b);
void vassume_le(double a, double b);
void vassume_lt(double a, double b);
void vcheck_eq(double a, double b, const char* tag, int k);
void vcheck_le(double a, double b, const char* tag, int k);
void vcheck_lt(double a, double b, const char* tag, int k);
void vcheck_bits_eq(double a, double b, const char* tag, int k);
void vcheck_true(bool c, const char* tag, int k);
void vcheck_indep(double a, const char* family, const char* tag, int k); // a does not depend on symbols of `family`
void vcheck_sat(bool c, const char* tag, int k);    // witness: c must be satisfiable here
void vcheck_deriv(double f, double df, const char* var, const char* tag, int k, double fd_estimate); // df = d f / d var (engine: formal derivative; native: against the finite-difference estimate)
double vdiff(double f, const char* var);            // engine: formal partial derivative w.r.t. "r" or "theta"; native: 0 (unused)
void vcheck_eq_fd(double a, double b, const char* tag, int k, double fd); // engine: a = b; native: b against the finite-difference value fd
void vrace_begin();                                  // race mode: parallel regions from here on are analysed
void vreach(const char* tag);
void vout(double a, const char* tag, int k);        // observed value (differential validation only)
void vout_int(int a, const char* tag, int k);
int vis_symbolic();                                 // 1 inside the engine in real mode, 0 natively / float mode
void vset_threads(int n);                           // what omp_get_max_threads() returns (native: omp_set_num_threads)
}
#define VENTRY(name) extern "C" void name(const int* a)
