// operator construction helpers shared by C04/C06/C07 harnesses
#pragma once
#include "vgrid.h"
#include "Residual/ResidualGive/residualGive.h"
#include "Residual/ResidualTake/residualTake.h"
#include "Smoother/SmootherGive/smootherGive.h"
#include "Smoother/SmootherTake/smootherTake.h"
#include "ExtrapolatedSmoother/ExtrapolatedSmootherGive/extrapolatedSmootherGive.h"
#include "ExtrapolatedSmoother/ExtrapolatedSmootherTake/extrapolatedSmootherTake.h"
#include "DirectSolver/DirectSolverGiveCustomLU/directSolverGiveCustomLU.h"
#include "DirectSolver/DirectSolverTakeCustomLU/directSolverTakeCustomLU.h"

inline std::unique_ptr<Residual> vresidual(VLevelBox& b, int strategy, int T = 1)
{
    if (strategy == 1) return std::make_unique<ResidualGive>(b.L->grid(), b.L->levelCache(), b.geo, b.co, b.dirbc, T);
    return std::make_unique<ResidualTake>(b.L->grid(), b.L->levelCache(), b.geo, b.co, b.dirbc, T);
}
inline std::unique_ptr<Smoother> vsmoother(VLevelBox& b, int strategy, int T = 1)
{
    if (strategy == 1) return std::make_unique<SmootherGive>(b.L->grid(), b.L->levelCache(), b.geo, b.co, b.dirbc, T);
    return std::make_unique<SmootherTake>(b.L->grid(), b.L->levelCache(), b.geo, b.co, b.dirbc, T);
}
inline std::unique_ptr<ExtrapolatedSmoother> vexsmoother(VLevelBox& b, int strategy, int T = 1)
{
    if (strategy == 1) return std::make_unique<ExtrapolatedSmootherGive>(b.L->grid(), b.L->levelCache(), b.geo, b.co, b.dirbc, T);
    return std::make_unique<ExtrapolatedSmootherTake>(b.L->grid(), b.L->levelCache(), b.geo, b.co, b.dirbc, T);
}
inline std::unique_ptr<DirectSolver> vdirect(VLevelBox& b, int strategy, int T = 1)
{
    if (strategy == 1) return std::make_unique<DirectSolverGiveCustomLU>(b.L->grid(), b.L->levelCache(), b.geo, b.co, b.dirbc, T);
    return std::make_unique<DirectSolverTakeCustomLU>(b.L->grid(), b.L->levelCache(), b.geo, b.co, b.dirbc, T);
}
// f := A u  (Dirichlet rows: f_D = u_D), through the residual operator
inline void vapplyA(Residual& R, int n, const Vector<double>& u, Vector<double>& f)
{
    Vector<double> z(n), r(n);
    for (int i = 0; i < n; i++) z[i] = 0.0;
    R.computeResidual(r, z, u);
    for (int i = 0; i < n; i++) f[i] = 0.0 - r[i];
}
// colour of a line by the rule of the property: the outermost circle is black, circles alternate inwards;
// radial lines: even angular index black, odd white; white is relaxed after black, radial section after circle section
inline bool vcircle_is_white(int nC, int ir) { return ((nC - 1 - ir) & 1) != 0; }
