// C03 — one discrete operator: give = take = reference stencil; cached = uncached; coarse caches = fresh evaluation.
#include "vgrid.h"
#include "Residual/ResidualGive/residualGive.h"
#include "Residual/ResidualTake/residualTake.h"
#include "InputFunctions/DomainGeometry/circularGeometry.h"
#include "InputFunctions/DomainGeometry/shafranovGeometry.h"
#include "InputFunctions/DomainGeometry/czarnyGeometry.h"
#include "InputFunctions/DensityProfileCoefficients/poissonCoefficients.h"
#include "InputFunctions/DensityProfileCoefficients/sonnendruckerGyroCoefficients.h"
#include "InputFunctions/DensityProfileCoefficients/zoniShiftedGyroCoefficients.h"
#include "InputFunctions/DensityProfileCoefficients/zoniGyroCoefficients.h"

// reference residual written from the documented stencil, gather form, own numbering.
//   interior rows: 9-point; i_r = 0 across the origin: 7-point with h1 = 2 r_0 and the antipodal node as inner neighbour;
//   Dirichlet rows (outer boundary, inner boundary with DirBC): identity.
static void reference_residual(const PolarGrid& g, const LevelCache& lc, bool dirbc, std::vector<double>& res,
                               const Vector<double>& f, const Vector<double>& x)
{
    const int nr = g.nr(), nt = g.ntheta(), nC = g.numberSmootherCircles();
    auto I = [&](int ir, int it) { return vidx(nr, nt, nC, ir, it); };
    auto K = [&](int it) { return g.angular_spacings_[((it % nt) + nt) % nt]; };
    const Vector<double>&arr = lc.arr_, &att = lc.att_, &art = lc.art_, &det = lc.detDF_;
    for (int ir = 0; ir < nr; ir++)
        for (int it = 0; it < nt; it++) {
            const int c = I(ir, it);
            if (ir == nr - 1 || (ir == 0 && dirbc)) { res[c] = f[c] - x[c]; continue; }
            const bool origin = (ir == 0);
            const double h1 = origin ? 2.0 * g.radii_[0] : g.radial_spacings_[ir - 1];
            const double h2 = g.radial_spacings_[ir];
            const double k1 = K(it - 1), k2 = K(it);
            const int L  = origin ? I(0, it + nt / 2) : I(ir - 1, it);
            const int R  = I(ir + 1, it), B = I(ir, it - 1), T = I(ir, it + 1);
            const int BR = I(ir + 1, it - 1), TR = I(ir + 1, it + 1);
            double Ax = 0.25 * (h1 + h2) * (k1 + k2) * lc.coeff_beta_[ir] * fabs(det[c]) * x[c];
            Ax += 0.5 * (k1 + k2) / h1 * (arr[c] + arr[L]) * (x[c] - x[L]);
            Ax += 0.5 * (k1 + k2) / h2 * (arr[c] + arr[R]) * (x[c] - x[R]);
            Ax += 0.5 * (h1 + h2) / k1 * (att[c] + att[B]) * (x[c] - x[B]);
            Ax += 0.5 * (h1 + h2) / k2 * (att[c] + att[T]) * (x[c] - x[T]);
            Ax += 0.25 * (art[R] + art[B]) * x[BR] - 0.25 * (art[R] + art[T]) * x[TR];
            if (!origin) {
                const int BL = I(ir - 1, it - 1), TL = I(ir - 1, it + 1);
                Ax += -0.25 * (art[L] + art[B]) * x[BL] + 0.25 * (art[L] + art[T]) * x[TL];
            }
            res[c] = f[c] - Ax;
        }
}

// a: nr, ntheta, nC(-1 auto), DirBC, threads of give, detsign, uniform-angles
VENTRY(h_give_take)
{
    const int nr = a[0], nt = a[1], nC = a[2], dirbc = a[3], T = a[4], detsign = a[5];
    VStubGeometry geo;
    VStubCoeff co;
    auto grid = vmake_grid(nr, nt, nC);
    auto lc   = std::make_unique<LevelCache>(*grid, co, geo, true, true);
    vsymbolize_grid(*grid);
    vsymbolize_cache(*lc, *grid, detsign);
    Level level(0, std::move(grid), std::move(lc), ExtrapolationType::NONE, false);
    ResidualGive g(level.grid(), level.levelCache(), geo, co, dirbc != 0, T);
    ResidualTake t(level.grid(), level.levelCache(), geo, co, dirbc != 0, 1);
    const int n = level.grid().numberOfNodes();
    Vector<double> x(n), f(n), rg(n), rt(n);
    for (int i = 0; i < n; i++) { x[i] = vsym("x", i, 0); f[i] = vsym("f", i, 0); }
    g.computeResidual(rg, f, x);
    t.computeResidual(rt, f, x);
    std::vector<double> ref(n);
    reference_residual(level.grid(), level.levelCache(), dirbc != 0, ref, f, x);
    vreach("residuals-computed");
    for (int i = 0; i < n; i++) {
        vcheck_eq(rg[i], rt[i], "give=take", i);
        vcheck_eq(rt[i], ref[i], "take=reference-stencil", i);
    }
    // Dirichlet rows are the identity
    const PolarGrid& G = level.grid();
    for (int it = 0; it < nt; it++) {
        int o = G.index(nr - 1, it);
        vcheck_eq(rg[o], f[o] - x[o], "dirichlet-row-outer", it);
        if (dirbc) { int in = G.index(0, it); vcheck_eq(rg[in], f[in] - x[in], "dirichlet-row-inner", it); }
    }
}

static const DomainGeometry* pick_geometry(int which)
{
    switch (which) {
    case 0: return new CircularGeometry(1.3);
    case 1: return new ShafranovGeometry(1.3, 0.3, 0.2);
    default: return new CzarnyGeometry(1.3, 0.3, 1.4);
    }
}
static const DensityProfileCoefficients* pick_profile(int which)
{
    switch (which) {
    case 0: return new PoissonCoefficients(1.3, 0.0);
    case 1: return new SonnendruckerGyroCoefficients(1.3, 0.0);
    case 2: return new ZoniGyroCoefficients(1.3, 0.0);
    default: return new ZoniShiftedGyroCoefficients(1.3, 0.7081 * 1.3);
    }
}

// cached = uncached (give; take needs both caches) with the shipped geometry/profile classes evaluated on symbolic
// radii and symbolic angles (sin/cos of a symbolic angle are uninterpreted).  a: nr, nt, nC, DirBC, geometry, profile, threads
VENTRY(h_cache_flags)
{
    const int nr = a[0], nt = a[1], nC = a[2], dirbc = a[3];
    const DomainGeometry* geo            = pick_geometry(a[4]);
    const DensityProfileCoefficients* co = pick_profile(a[5]);
    const int T = a[6];
    auto grid = vmake_grid(nr, nt, nC);
    vsymbolize_grid(*grid);
    const int n = grid->numberOfNodes();
    Vector<double> x(n), f(n);
    for (int i = 0; i < n; i++) { x[i] = vsym("x", i, 0); f[i] = vsym("f", i, 0); }
    Vector<double> r[4];
    for (int flags = 0; flags < 4; flags++) {
        LevelCache lc(*grid, *co, *geo, (flags & 1) != 0, (flags & 2) != 0);
        ResidualGive g(*grid, lc, *geo, *co, dirbc != 0, T);
        r[flags] = Vector<double>(n);
        g.computeResidual(r[flags], f, x);
    }
    // take on the fully cached level
    LevelCache lc(*grid, *co, *geo, true, true);
    ResidualTake t(*grid, lc, *geo, *co, dirbc != 0, 1);
    Vector<double> rt(n);
    t.computeResidual(rt, f, x);
    vreach("cache-variants-computed");
    for (int i = 0; i < n; i++) {
        vcheck_eq(r[0][i], r[3][i], "uncached=cached", i);
        vcheck_eq(r[1][i], r[3][i], "profile-cached=cached", i);
        vcheck_eq(r[2][i], r[3][i], "geometry-cached=cached", i);
        vcheck_eq(rt[i], r[3][i], "take=give(real-geometry)", i);
    }
}

// coarse-level caches = fresh evaluation at the coarse nodes; residual on the coarse level through either cache.
// a: nr, nt, nC(fine), nC(coarse), DirBC, geometry, profile, cache flags
VENTRY(h_levels)
{
    const int nr = a[0], nt = a[1], nCf = a[2], nCc = a[3], dirbc = a[4];
    const DomainGeometry* geo            = pick_geometry(a[5]);
    const DensityProfileCoefficients* co = pick_profile(a[6]);
    const bool cp = (a[7] & 1) != 0, cg = (a[7] & 2) != 0;
    auto fine = vmake_grid(nr, nt, nCf);
    // coarse grid from the real coarsening (shape + split), then the same symbolic coordinates
    std::unique_ptr<PolarGrid> coarse;
    {
        PolarGrid c0 = coarseningGrid(*fine);
        if (nCc >= 0) coarse = std::make_unique<PolarGrid>(c0.radii(), c0.angles(), nCc >= c0.nr() ? c0.radius(c0.nr() - 1) + 1.0 : c0.radius(nCc));
        else coarse = std::make_unique<PolarGrid>(c0);
    }
    vsymbolize_grid(*fine);
    vsymbolize_coarse_from_fine(*coarse, *fine);
    auto lcf = std::make_unique<LevelCache>(*fine, *co, *geo, cp, cg);
    Level L0(0, std::move(fine), std::move(lcf), ExtrapolationType::NONE, false);
    LevelCache inherited(L0, *coarse);
    LevelCache fresh(*coarse, *co, *geo, cp, cg);
    vreach("caches-built");
    const int nc = coarse->numberOfNodes();
    for (int j = 0; j < coarse->ntheta(); j++) {
        vcheck_eq(inherited.sin_theta_[j], fresh.sin_theta_[j], "coarse-sin", j);
        vcheck_eq(inherited.cos_theta_[j], fresh.cos_theta_[j], "coarse-cos", j);
    }
    vcheck_true(inherited.coeff_alpha_.size() == fresh.coeff_alpha_.size(), "coarse-alpha-size", 0);
    vcheck_true(inherited.coeff_beta_.size() == fresh.coeff_beta_.size(), "coarse-beta-size", 0);
    vcheck_true(inherited.arr_.size() == fresh.arr_.size(), "coarse-arr-size", 0);
    for (size_t i = 0; i < fresh.coeff_alpha_.size() && i < inherited.coeff_alpha_.size(); i++) vcheck_eq(inherited.coeff_alpha_[i], fresh.coeff_alpha_[i], "coarse-alpha", (int)i);
    for (size_t i = 0; i < fresh.coeff_beta_.size() && i < inherited.coeff_beta_.size(); i++) vcheck_eq(inherited.coeff_beta_[i], fresh.coeff_beta_[i], "coarse-beta", (int)i);
    if (cg)
        for (int i = 0; i < nc; i++) {
            vcheck_eq(inherited.arr_[i], fresh.arr_[i], "coarse-arr", i);
            vcheck_eq(inherited.att_[i], fresh.att_[i], "coarse-att", i);
            vcheck_eq(inherited.art_[i], fresh.art_[i], "coarse-art", i);
            vcheck_eq(inherited.detDF_[i], fresh.detDF_[i], "coarse-detDF", i);
        }
    // the coarse residual through either cache
    Vector<double> x(nc), f(nc), r1(nc), r2(nc);
    for (int i = 0; i < nc; i++) { x[i] = vsym("x", i, 0); f[i] = vsym("f", i, 0); }
    ResidualGive g1(*coarse, inherited, *geo, *co, dirbc != 0, 1);
    ResidualGive g2(*coarse, fresh, *geo, *co, dirbc != 0, 1);
    g1.computeResidual(r1, f, x);
    g2.computeResidual(r2, f, x);
    for (int i = 0; i < nc; i++) vcheck_eq(r1[i], r2[i], "coarse-residual", i);
}
