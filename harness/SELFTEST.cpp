// Engine self-test: a few identities with known verdicts (unsat expected), differential float run, one witness.
#include "vharness.h"
#include "LinearAlgebra/vector.h"
#include "LinearAlgebra/symmetricTridiagonalSolver.h"
VENTRY(h_selftest)
{
    const int n = a[0];
    SymmetricTridiagonalSolver<double> S(n);
    S.is_cyclic(false);
    std::vector<double> d(n), s(n), b(n);
    for (int i = 0; i < n; i++) { d[i] = vsym("d", i, 0); S.main_diagonal(i) = d[i]; }
    for (int i = 0; i < n - 1; i++) { s[i] = vsym("s", i, 0); S.sub_diagonal(i) = s[i]; }
    Vector<double> x(n), t1(n), t2(n);
    for (int i = 0; i < n; i++) { b[i] = vsym("b", i, 0); x[i] = b[i]; }
    S.solveInPlace(x.begin(), t1.begin(), t2.begin());
    vreach("solved");
    for (int i = 0; i < n; i++) {
        double r = d[i] * x[i];
        if (i > 0) r += s[i - 1] * x[i - 1];
        if (i < n - 1) r += s[i] * x[i + 1];
        vcheck_eq(r, b[i], "Ax=b", i);
        vout(x[i], "x", i);
    }
}
