// Native implementation of the harness API: random inputs (differential validation) or model values (replay).
#include <cmath>
#include <cstdint>
#include <cstdio>
#include <cstdlib>
#include <cstring>
#include <dlfcn.h>
#include <map>
#include <string>
#include <vector>
#ifdef _OPENMP
#include <omp.h>
#endif
#include "vharness.h"

static std::map<std::string, double> g_vals;
static bool g_replay = false;
static uint64_t g_seed = 1;
static int g_fail = 0;
static std::map<std::string, int> g_choice_ctr;

static uint64_t hname(const std::string& s)
{
    uint64_t h = 1469598103934665603ULL;
    for (unsigned char c : s) { h ^= c; h *= 1099511628211ULL; }
    h ^= g_seed * 0x9E3779B97F4A7C15ULL;
    h += 0x9E3779B97F4A7C15ULL;
    h = (h ^ (h >> 30)) * 0xBF58476D1CE4E5B9ULL;
    h = (h ^ (h >> 27)) * 0x94D049BB133111EBULL;
    return h ^ (h >> 31);
}
static std::string nm(const char* f, int i, int j) { return std::string(f) + "_" + std::to_string(i) + "_" + std::to_string(j); }
static void hex(double d) { uint64_t u; memcpy(&u, &d, 8); printf("%016llx", (unsigned long long)u); }

extern "C" {
double vsym(const char* f, int i, int j)
{
    std::string n = nm(f, i, j);
    if (g_replay) { auto it = g_vals.find(n); return it == g_vals.end() ? 0.0 : it->second; }
    return ((double)((hname(n) >> 40) % 2049) - 1024.0) / 512.0;
}
double vsym_pos(const char* f, int i, int j)
{
    std::string n = nm(f, i, j);
    if (g_replay) { auto it = g_vals.find(n); return it == g_vals.end() ? 1.0 : it->second; }
    return 0.5 + (double)((hname(n) >> 40) % 513) / 512.0;
}
int vsym_int(const char* name, int lo, int hi)
{
    if (g_replay) { auto it = g_vals.find(name); return it == g_vals.end() ? lo : (int)it->second; }
    return lo + (int)(hname(name) % (uint64_t)((int64_t)hi - lo + 1));
}
int vchoice(const char* name, int n)
{
    int c = g_choice_ctr[name]++;
    std::string k = std::string(name) + "#" + std::to_string(c);
    if (g_replay) { auto it = g_vals.find(k); return it == g_vals.end() ? 0 : (int)it->second; }
    return (int)(hname(k) % (uint64_t)n);
}
static void assume_fail() { printf("ASSUME-FALSE\n"); fflush(stdout); _Exit(3); }
void vassume(bool c) { if (!c) assume_fail(); }
void vassume_pos(double x) { if (!(x > 0)) assume_fail(); }
void vassume_nonneg(double x) { if (!(x >= 0)) assume_fail(); }
void vassume_ne(double a, double b) { if (!(a != b)) assume_fail(); }
void vassume_eq(double a, double b) { if (g_replay ? !(std::fabs(a - b) <= 1e-9 * (std::fabs(a) + std::fabs(b) + 1)) : !(a == b)) assume_fail(); }
void vassume_le(double a, double b) { if (!(a <= b)) assume_fail(); }
void vassume_lt(double a, double b) { if (!(a < b)) assume_fail(); }
static void chk(const char* kind, double a, double b, const char* tag, int k, bool ok)
{
    printf("CHK %s %s %d ", kind, tag, k); hex(a); printf(" "); hex(b); printf(" %s %.17g %.17g\n", ok ? "ok" : "FAIL", a, b);
    if (!ok) g_fail++;
}
static double tol(double a, double b) { return 1e-9 * (std::fabs(a) + std::fabs(b) + 1e-3); }
void vcheck_eq(double a, double b, const char* tag, int k) { chk("eq", a, b, tag, k, std::fabs(a - b) <= tol(a, b)); }
void vcheck_le(double a, double b, const char* tag, int k) { chk("le", a, b, tag, k, a <= b + tol(a, b)); }
void vcheck_lt(double a, double b, const char* tag, int k) { chk("lt", a, b, tag, k, a < b + tol(a, b)); }
void vcheck_bits_eq(double a, double b, const char* tag, int k) { chk("bits", a, b, tag, k, a == b); }
void vcheck_true(bool c, const char* tag, int k) { chk("true", c ? 1.0 : 0.0, 1.0, tag, k, c); }
void vcheck_indep(double a, const char* family, const char* tag, int k) { chk("indep", a, a, tag, k, true); }
void vcheck_sat(bool c, const char* tag, int k) { chk("witness", c ? 1.0 : 0.0, 1.0, tag, k, true); }
void vcheck_deriv(double f, double df, const char* var, const char* tag, int k, double fd) { chk("eq", df, fd, tag, k, std::fabs(df - fd) <= 1e-5 * (std::fabs(df) + std::fabs(fd) + 1.0)); }
double vdiff(double f, const char* var) { return 0.0; }
void vcheck_eq_fd(double a, double b, const char* tag, int k, double fd) { chk("eq", b, fd, tag, k, std::fabs(b - fd) <= 2e-5 * (std::fabs(b) + std::fabs(fd)) + 1e-7); }
void vrace_begin() {}
void vreach(const char* tag) { printf("REACH %s\n", tag); }
void vout(double a, const char* tag, int k) { printf("OUT %s %d ", tag, k); hex(a); printf(" %.17g\n", a); }
void vout_int(int a, const char* tag, int k) { printf("OUTI %s %d %d\n", tag, k, a); }
int vis_symbolic() { return 0; }
extern "C" double vpi(void) { return 3.14159265358979323846; }   // harness/vpi.h
#ifdef _OPENMP
void vset_threads(int n) { omp_set_num_threads(n); }
#else
// no-OpenMP build: the runtime API is a harness-controlled cell, exactly as in the engine (DESIGN 3.5)
static int g_threads = 1;
void vset_threads(int n) { g_threads = n; }
int omp_get_max_threads(void) { return g_threads; }
void omp_set_num_threads(int n) { g_threads = n; }
int omp_get_thread_num(void) { return 0; }
int omp_get_num_threads(void) { return 1; }
double omp_get_wtime(void) { return 0.0; }
#endif
}

int main(int argc, char** argv)
{
    if (argc < 3) { fprintf(stderr, "usage: %s <entry> rand:<seed>|vals:<file> [int args]\n", argv[0]); return 2; }
    std::string mode = argv[2];
    if (mode.rfind("rand:", 0) == 0) g_seed = strtoull(mode.c_str() + 5, nullptr, 10);
    else if (mode.rfind("vals:", 0) == 0) {
        g_replay = true;
        FILE* f = fopen(mode.c_str() + 5, "r");
        if (!f) { perror("vals"); return 2; }
        char line[8192]; char name[512]; char val[4096];
        while (fgets(line, sizeof line, f)) {
            if (line[0] == '#') continue;
            if (sscanf(line, "%511s %4095s", name, val) != 2) continue;
            char* slash = strchr(val, '/');
            double d;
            if (slash) { *slash = 0; d = strtod(val, nullptr) / strtod(slash + 1, nullptr); }
            else d = strtod(val, nullptr);
            g_vals[name] = d;
        }
        fclose(f);
    }
    else return 2;
    std::vector<int> a;
    for (int i = 3; i < argc; i++) a.push_back(atoi(argv[i]));
    a.resize(32, 0);
    typedef void (*entry_t)(const int*);
    entry_t e = (entry_t)dlsym(RTLD_DEFAULT, argv[1]);
    if (!e) { fprintf(stderr, "no entry %s\n", argv[1]); return 2; }
    e(a.data());
    printf("DONE fail=%d\n", g_fail);
    return g_fail ? 1 : 0;
}
