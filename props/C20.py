import itertools, random
from llsym.build import CORE, GMG, GEOM
from llsym.terms import sym, mk_cmp
ID = 'C20'
SOURCES = CORE + GMG + GEOM + ['repo:src/GMGPolar/gmgpolar.cpp', 'repo:src/GMGPolar/parser.cpp', 'harness/C20.cpp']
FLAGS = []    # assertions ON: a failed internal assert is a violation
ASSUMPTIONS = [
    'oracle: the engine\'s object model (every load/store checked for bounds, liveness and initialisation; use of an uninitialised value in arithmetic that reaches an API-visible result, a branch or an address is an event) plus the library\'s own assert()s, while right-hand side and tolerances are symbolic',
    'option tuples are enumerated (pairwise-covering set in quick, larger product in thorough) on the two-level 9x8/5x4 hierarchy; inside each tuple the numeric data are symbolic',
    'GMGPolar state built directly; statistics are read through the real accessors (numberOfIterations, meanResidualReductionFactor, exactError*, solution, grid)',
    'parser validation: cmdline::parser::get<T> is replaced by "returns an arbitrary T"; the text -> value conversion, usage message and exit status of the command-line front end are NOT covered (libstdc++ stream code has no IR)',
    'coefficients via the small-rational libm mode; "finite solution" is not decided (the model has no infinities)',
]
OUTSIDE = ['the text front end (cmdline.h over std::istringstream), ParaView output, grid-file I/O', 'grids other than 9x8/5x4', 'thread counts other than 1 and 2 (schedules: C11)']
BOUNDS = {'quick': '~40 pairwise-covering option tuples + 10 must-reject settings + 3 parser sections', 'thorough': '~400 tuples'}


def _get_int(m, this, name):
    from llsym.interp import Ptr
    n = m.hook_ctr = getattr(m, 'hook_ctr', 0) + 1
    t = sym(f'opt_int_{n}', 'I')
    m.syms[t.args[0]] = t
    m.assume(mk_cmp('le', -(1 << 31), t))
    m.assume(mk_cmp('le', t, (1 << 31) - 1))
    p = m.alloc(4, 'heap', 'parser-value')
    m.store(p, t, 4)
    return p


def _get_double(m, this, name):
    n = m.hook_ctr = getattr(m, 'hook_ctr', 0) + 1
    t = sym(f'opt_real_{n}', 'R')
    m.syms[t.args[0]] = t
    p = m.alloc(8, 'heap', 'parser-value')
    m.store(p, t, 8)
    return p


def hook_parser(m, job):
    m.ext['@_ZNK7cmdline6parser3getIiEERKT_RKNSt7__cxx1112basic_stringIcSt11char_traitsIcESaIcEEE'] = _get_int
    m.ext['@_ZNK7cmdline6parser3getIdEERKT_RKNSt7__cxx1112basic_stringIcSt11char_traitsIcESaIcEEE'] = _get_double
    from llsym.ext import x_noop
    m.ext_prefix.insert(0, ('@_ZNSt7__cxx1112basic_stringIcSt11char_traitsIcESaIcEE', x_noop))


HOOKS = {'parser': hook_parser}

# option dimensions: (name, values)
DIMS = [('ex', [0, 1, 2, 3]), ('strat', [0, 1]), ('cache', [3, 2, 1, 0]), ('dirbc', [0, 1]), ('cycle', [0, 1, 2]), ('fmg', [0, 1]), ('fmgcyc', [0, 1, 2]),
        ('fmgit', [0, 1]), ('nu1', [1, 0]), ('nu2', [1, 0]), ('maxlev', [-1, 2]), ('tol', [0, 1, 2, 3]), ('maxit', [2, 1, 0]), ('threads', [1, 2]), ('exact', [0, 1]), ('norm', [0, 1, 2])]


def valid(t):
    d = dict(zip([n for n, v in DIMS], t))
    if d['strat'] == 0 and d['cache'] != 3:
        return False     # take without caches is a must-reject case (h_reject)
    return True


def pairwise(seed, extra=0):
    rnd = random.Random(seed)
    names = [n for n, v in DIMS]
    need = set()
    for i in range(len(DIMS)):
        for j in range(i + 1, len(DIMS)):
            for a in DIMS[i][1]:
                for b in DIMS[j][1]:
                    need.add((i, a, j, b))
    out = []
    tries = 0
    while need and tries < 4000:
        tries += 1
        best, bestc = None, -1
        for _ in range(30):
            t = tuple(rnd.choice(v) for n, v in DIMS)
            if not valid(t):
                continue
            cnt = sum(1 for (i, a, j, b) in need if t[i] == a and t[j] == b)
            if cnt > bestc:
                best, bestc = t, cnt
        if best is None or bestc == 0:
            continue
        out.append(best)
        need = {(i, a, j, b) for (i, a, j, b) in need if not (best[i] == a and best[j] == b)}
    for _ in range(extra):
        t = tuple(rnd.choice(v) for n, v in DIMS)
        if valid(t):
            out.append(t)
    return out


def jobs(tier, seed):
    J = []
    q = tier == 'quick'
    tuples = pairwise(seed, 0 if q else 350)
    # the two statistics corner cases always included: both tolerances disabled; zero iterations with an exact solution
    tuples = [(0, 1, 3, 0, 0, 0, 0, 0, 1, 1, -1, 3, 2, 1, 0, 0), (1, 1, 3, 1, 0, 0, 0, 0, 1, 1, -1, 0, 0, 1, 1, 0)] + tuples
    for t in tuples:
        J.append(dict(entry='h_run', args=list(t), label='run ' + ' '.join(f'{n}={v}' for (n, _), v in zip(DIMS, t)), cls='run', reach=['setup-returned', 'solve-returned'],
                      eager=False, libm_small=True, threads=t[13], expect='return', no_obligations_ok=True, witness=False, max_paths=40, diff=(t == tuples[2])))
    base = [0, 1, 3, 0, 0, 0, 0, 0, 1, 1, -1, 3, 1, 1, 0, 0]   # tolerances disabled: the cycle (and its option checks) is reached
    for k in range(10):
        J.append(dict(entry='h_reject', args=base + [k], label=f'must-reject setting {k}', cls=f'reject-{k}', expect='threw', eager=False, libm_small=True, no_obligations_ok=True,
                      witness=False, max_paths=10))
    for k, nm in enumerate(('parseMultigrid', 'parseGeneral', 'parseGeometry')):
        J.append(dict(entry='h_parse', args=[k], label=f'parser {nm}', cls='parse', expect='any', eager=True, machine_hook='parser', witness=False, reach=['parsed'], max_paths=400))
    return J


LEVEL_TEXT = ('Bounded symbolic execution as a UB oracle: for each enumerated option tuple the real setup() and solve() run with symbolic right-hand side and tolerances under the '
              'engine\'s checked memory / initialisation model with assertions enabled; every path must end in a clean rejection (exception) or return with all API-visible '
              'statistics defined. Must-reject settings must throw. The option validation of the parser is executed with arbitrary (symbolic) option integers and the solver '
              'proves that every accepted path leaves each enum inside its enumerators.')
LEVEL_NOTE = 'option tuples enumerated (pairwise covering), numeric data symbolic; text front end not covered; 9x8/5x4 only'
TECHNIQUE = 'symbolic execution of LLVM IR (llsym) with a checked memory/initialisation model + SMT (z3) for path feasibility and enum-range obligations'
DESIGN_REF = 'DESIGN.md section 0 (status as built: 0.2, 0.5, 0.6) and section 6/C20 (design)'
