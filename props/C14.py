ID = 'C14'
SOURCES = ['harness/C14.cpp']
FLAGS = ['-DNDEBUG']   # the header's assert(!equals(pivot,0)) is a tolerance test on a symbolic value; replaced by explicit premises
ASSUMPTIONS = [
    'exact real arithmetic: "backward-stable accuracy" and widely scaled rows (rounding) are NOT decided, only A x = b in R',
    'A*solve(b)=b: every divisor the solver used is non-zero (premise); separately proved: strict diagonal dominance with positive diagonal, or positive leading principal minors (SPD), imply every divisor is non-zero (small n)',
    'cyclic matrices: corner entries A[0][n-1] = A[n-1][0] = c (added to the sub-diagonal entry when n = 2)',
    'compiled with -DNDEBUG (the build users run)',
]
OUTSIDE = ['dimensions above the listed n', 'floating-point error growth (backward stability)', 'pivot positivity for cyclic systems with n > 4 and plain with n > 6 as symbolic statements']
BOUNDS = {'quick': 'plain n = 2..12 (1-3 solves), cyclic n = 2..6; pivot safety: plain n <= 5, cyclic n = 2 (both premises) and n = 3 (SPD premise); diagonal n <= 8',
          'thorough': 'plain n = 2..16, cyclic n = 2..8 (9, 10 attempted under the cap); pivot safety: plain n <= 6, cyclic n <= 4'}
UNDECIDED_OK = False


def jobs(tier, seed):
    J = []
    q = tier == 'quick'
    for n in (range(2, 13) if q else range(2, 17)):
        for solves in ((1, 2) if n > 8 else (1, 2, 3)):
            J.append(dict(entry='h_tridiag', args=[n, 0, solves, 0], label=f'tridiag n={n} solves={solves}', cls='tridiag', reach=['solved'],
                          diff=(solves == 2 and n in (2, 3, 7)), eager=False))
        if n <= 5:
            J.append(dict(entry='h_tridiag', args=[n, 0, 2, 2], label=f'tridiag n={n} after-cyclic-use', cls='tridiag', reach=['solved'], eager=False))
        if n <= 8:
            J.append(dict(entry='h_tridiag', args=[n, 0, 2, 1], label=f'tridiag n={n} zero-subdiagonals', cls='tridiag', reach=['solved'], eager=False))
    for n in (range(2, 7) if q else range(2, 9)):
        for solves in (1, 2):
            J.append(dict(entry='h_tridiag', args=[n, 1, solves, 0], label=f'cyclic n={n} solves={solves}', cls='cyclic', reach=['solved'],
                          diff=(solves == 2 and n in (2, 3, 5)), eager=False, cap_thorough=300))
    for n in (2, 3, 4, 5) if q else (2, 3, 4, 5, 6):
        for mode in (0, 1):
            J.append(dict(entry='h_pivots', args=[n, 0, mode], label=f'pivots plain n={n} mode={mode}', cls='pivots', reach=['premise-stated'],
                          div_safety=True, eager=False))
    for n in (2, 3) if q else (2, 3, 4):
        for mode in (0, 1):
            if q and n == 3 and mode == 0:
                continue   # |.|-dominance => 1 + v.u != 0 at n = 3 needs > 60 s: thorough tier only
            J.append(dict(entry='h_pivots', args=[n, 1, mode], label=f'pivots cyclic n={n} mode={mode}', cls='pivots-cyclic', reach=['premise-stated'],
                          div_safety=True, eager=False))
    for n in (1, 2, 5, 8):
        J.append(dict(entry='h_diagonal', args=[n], label=f'diagonal n={n}', cls='diagonal', reach=['solved'], diff=(n == 5), eager=False))
    for j in J:
        j.setdefault('solver_budget_quick', 90)     # a tree that breaks every solve must still end in bounded time
        j.setdefault('max_paths', 400)
    return J


LEVEL_TEXT = ('Bounded symbolic verification of the real SymmetricTridiagonalSolver / DiagonalSolver headers: every matrix entry and right-hand side is a free real '
              'symbol; z3 proves A*solveInPlace(b) = b for all values with non-zero pivots, for 1-3 successive solves on one object (the later ones use the stored '
              'factorisation), that repeated solves are the same operation tree (bit-identical), and that diagonal dominance or SPD imply every divisor is non-zero. '
              'Right level: the algebra is a for-all over entries; dimensions are bounded.')
LEVEL_NOTE = 'exact arithmetic core only: backward stability / scaling are rounding statements and are not decided; n bounded as listed; -DNDEBUG build'
TECHNIQUE = 'symbolic execution of LLVM IR (llsym) + SMT (z3 QF_NRA), divisions as premises + separate pivot-safety obligations'
DESIGN_REF = 'DESIGN.md section 0 (status as built: 0.2, 0.5, 0.6) and section 6/C14 (design)'
