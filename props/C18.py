from llsym.terms import sym
from llsym.build import CORE, GMG
ID = 'C18'
SOURCES = CORE + GMG + ['harness/C18.cpp']   # setup.cpp (chooseNumberOfLevels) drags in the whole library for the native replay build
FLAGS = []       # assertions ON: a failed internal assert for an accepted parameter combination is a violation
ASSUMPTIONS = [
    'R0 > 0, Rmax - R0 >= 2^-10, Rmax <= 2^20 (the constructor\'s own precondition !equals(R0, Rmax) with a margin that does not depend on machine epsilon), refinement radius: unconstrained symbol / inside [R0, Rmax] / the command-line default 0',
    'nr_exp, ntheta_exp, anisotropic_factor, divideBy2 concrete (enumerated); floor(nr * percentage) is concretised by forking over its solver-enumerated feasible values; std::set<double> runs on the unbalanced-BST model of _Rb_tree_insert_and_rebalance with symbolic comparisons decided under the path condition',
    'exact real arithmetic: the uniform nodes R0 + i*d are exact (rounding of the generated radii is not modelled); M_PI is the double constant',
    'file constructor: loadVectorFromFile replaced by an arbitrary sequence of the given length (content = nondeterministic input); the text <-> double conversion of operator<< / operator>> has no IR: the written-precision round trip is NOT decided',
]
OUTSIDE = ['nr_exp > 5 (6 in thorough)', 'the text round trip of grid files', 'rounding of generated coordinates']
BOUNDS = {'quick': 'nr_exp 3 (anisotropic_factor 0..2) and 4 (0..1), ntheta_exp in {-1, 3}, divideBy2 0..1; refinement radius modes; file lengths 0..4',
          'thorough': 'nr_exp 2..5, ntheta_exp in {-1, 2, 4}, anisotropic_factor -1..min(nr_exp,3), divideBy2 0..2; level count for nr <= 1100, ntheta <= 2100 (the first table, nr_exp up to 6 and all anisotropy factors, did not finish in 40 minutes)'}


def _load_vector(m, this, filename, vec):
    """engine-only stand-in for PolarGrid::loadVectorFromFile: n arbitrary values (n from the job)"""
    from llsym.interp import Ptr
    n = m.file_lengths[m.file_ctr % len(m.file_lengths)]
    fam = 'file%d' % m.file_ctr
    m.file_ctr += 1
    # std::vector<double>: {begin, end, end_of_storage}
    if n == 0:
        return None
    buf = m.alloc(8 * n, 'heap', 'file-vector')
    for i in range(n):
        t = sym(f'{fam}_{i}_0', 'R')
        m.syms[t.args[0]] = t
        m.store(Ptr(buf.obj, 8 * i), t, 8)
    m.store(Ptr(vec.obj, vec.off), buf, 8)
    m.store(Ptr(vec.obj, vec.off + 8), Ptr(buf.obj, 8 * n), 8)
    m.store(Ptr(vec.obj, vec.off + 16), Ptr(buf.obj, 8 * n), 8)
    return None


def hook_files(m, job):
    m.file_lengths = job['file_lengths']
    m.file_ctr = 0
    m.ext['@_ZNK9PolarGrid18loadVectorFromFileERKNSt7__cxx1112basic_stringIcSt11char_traitsIcESaIcEEERSt6vectorIdSaIdEE'] = _load_vector
    from llsym.ext import x_noop
    m.ext_prefix.insert(0, ('@_ZNSt7__cxx1112basic_stringIcSt11char_traitsIcESaIcEE', x_noop))


HOOKS = {'files': hook_files}


def jobs(tier, seed):
    J = []
    q = tier == 'quick'
    nrx = (3, 4) if q else (2, 3, 4, 5)
    for nr_exp in nrx:
        for nt_exp in ((-1, 3) if q else (-1, 2, 4)):
            for aniso in (range(0, 3) if q else range(-1, min(nr_exp, 3) + 1)):
                for div2 in ((0, 1) if q else (0, 1, 2)):
                    if q and (nt_exp == 3) != (div2 == 1) and aniso > 0:
                        continue
                    if q and nr_exp == 4 and aniso > 0 and not (aniso == 1 and div2 == 0):
                        continue    # the larger anisotropic windows: thorough tier (2-4 minutes each)
                    for mode in ((2, 0) if aniso != 0 else (2,)):
                        if not q and nr_exp >= 5 and aniso >= 3 and mode == 0:
                            continue
                        maxlev = -1 if (nr_exp + aniso) % 2 else 2
                        J.append(dict(entry='h_generate', args=[nr_exp, nt_exp, aniso, div2, mode, maxlev],
                                      label=f'generate nr_exp={nr_exp} ntheta_exp={nt_exp} aniso={aniso} divideBy2={div2} refinement={["free","inside","default-0"][mode]} maxlev={maxlev}',
                                      cls='generate-aniso' if aniso > 0 else 'generate', expect='any', eager=True, feas_timeout=10, concretize=True, fork_int_selects=True,
                                      witness=False, max_paths=600, no_obligations_ok=True))
    # the level count for every grid size (symbolic node counts; generated, file-loaded and anisotropic grids alike)
    for maxlev, hi_r, hi_t in (((-1, 300, 64), (3, 150, 128)) if q else ((-1, 1100, 128), (2, 600, 256), (4, 300, 2100))):
        J.append(dict(entry='h_level_count', args=[maxlev, hi_r, hi_t], label=f'level count maxlev={maxlev} nr<={hi_r} ntheta<={hi_t}', cls='level-count', expect='any', eager=True,
                      feas_timeout=10, witness=False, max_paths=2000, no_obligations_ok=True, reach=['levels-chosen']))
    for nrad in ((0, 1, 3) if q else (0, 1, 2, 3, 5)):
        for nang in ((0, 2, 4) if q else (0, 1, 2, 3, 5)):
            J.append(dict(entry='h_from_files', args=[nrad, nang], label=f'files radii={nrad} angles={nang}', cls='files', expect='any', eager=True, feas_timeout=10,
                          machine_hook='files', file_lengths=[nrad, nang], fork_int_selects=True, witness=False, max_paths=300, no_obligations_ok=True))
    return J


LEVEL_TEXT = ('Bounded symbolic verification of the real parametric PolarGrid constructor (uniform and anisotropic division, divideBy2 refinement, angular division) with symbolic '
              'R0 < Rmax and refinement radius: every accepted path (path forking on the code\'s own comparisons, the refinement window position concretised by solver '
              'enumeration) is proved to produce radii from exactly R0 to exactly Rmax, strictly increasing, with odd nodes at midpoints, the divideBy2-1 grid as every-second-node '
              'subgrid, uniform antipodal angles and a level count that chooseNumberOfLevels reports admissibly; the engine\'s memory model reports any out-of-bounds index. '
              'The grid-file constructor is executed on arbitrary file contents of bounded length. chooseNumberOfLevels is also executed on SYMBOLIC node counts (nr <= 300, ntheta <= 128 in quick): for every size it either throws or reports a level count the grid admits.')
LEVEL_NOTE = 'grid parameters enumerated in small ranges, real parameters symbolic; text round trip of grid files not decided (no IR for stream formatting)'
TECHNIQUE = 'symbolic execution of LLVM IR (llsym) with path forking and solver-enumerated concretisation + SMT (z3 QF_LRA/QF_NRA)'
DESIGN_REF = 'DESIGN.md section 0 (status as built: 0.2, 0.5, 0.6) and section 6/C18 (design)'
