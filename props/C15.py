ID = 'C15'
SOURCES = ['harness/C15.cpp']
FLAGS = ['-DNDEBUG']   # the pivot asserts are tolerance tests on symbolic values (premises instead); memory safety is checked by the engine's own model
ASSUMPTIONS = [
    'exact real arithmetic; divisions by pivots are premises',
    'histories: 0-2 solves on the source before the operation; 8 kinds of copy/move (construct, assign over equal size / other size / default-constructed, self copy-assign); the assignment target may have solved before; then identical probes; then overwrite + re-probe',
    'self move-assignment is not exercised (unspecified for these classes)',
    'a default-constructed (dimension 0) source is not copied (its unique_ptr<T[]> of size -1 is outside every documented use)',
]
OUTSIDE = ['dimensions other than n = 2..4', 'histories longer than: <=2 pre-solves, one copy/move, two probes']
BOUNDS = {'quick': 'tridiagonal (cyclic and not) n = 2,3; diagonal n = 2; Vector n = 2,3; COO, CSR, LU 3x3; every history of the grammar above (forked paths)',
          'thorough': 'tridiagonal n = 2..4, diagonal n = 1..3, Vector n = 1..4'}


def jobs(tier, seed):
    J = []
    q = tier == 'quick'
    for n in ((2, 3) if q else (2, 3, 4)):
        for cyc in (0, 1):
            J.append(dict(entry='h_tridiag_history', args=[n, cyc], label=f'tridiag history n={n} cyclic={cyc}', cls='tridiag', reach=['copied-or-moved'],
                          eager=False, diff=(n == 2), witness=True))
    for n in ((2,) if q else (1, 2, 3)):
        J.append(dict(entry='h_diagonal_history', args=[n], label=f'diagonal history n={n}', cls='diagonal', reach=['copied-or-moved'], eager=False, diff=True))
    for n in ((2, 3) if q else (1, 2, 3, 4)):
        J.append(dict(entry='h_vector_history', args=[n], label=f'vector history n={n}', cls='vector', reach=['copied-or-moved'], eager=False, diff=True))
    for w, nm in enumerate(('coo', 'csr', 'lu')):
        J.append(dict(entry='h_sparse_history', args=[w], label=f'{nm} history', cls=nm, reach=['copied-or-moved'], eager=False, diff=True, expect='any' if w == 2 else 'return'))
    return J


LEVEL_TEXT = ('Bounded symbolic verification over histories: the real special member functions of Vector, SparseMatrixCOO/CSR, SparseLUSolver, SymmetricTridiagonalSolver '
              '(cyclic and not) and DiagonalSolver are executed for every history of a small grammar (pre-solves x copy/move kind x used/unused target), with all entries '
              'and right-hand sides symbolic; z3 proves that the target answers every probe like an uncopied twin for ALL values, and the engine\'s memory model reports '
              'double frees, out-of-bounds copies and use of moved-from storage. Right level: "no matter what the source has done" is a for-all over histories and values.')
LEVEL_NOTE = 'history grammar and dimensions bounded as listed; exact arithmetic; -DNDEBUG build (memory safety from the engine object model)'
TECHNIQUE = 'symbolic execution of LLVM IR (llsym) with history forking + SMT (z3 QF_NRA)'
DESIGN_REF = 'DESIGN.md section 0 (status as built: 0.2, 0.5, 0.6) and section 6/C15 (design)'
