ID = 'SELFTEST'
SOURCES = ['harness/SELFTEST.cpp']
FLAGS = ['-DNDEBUG']
ASSUMPTIONS = ['pivots non-zero']


def jobs(tier, seed):
    return [dict(entry='h_selftest', args=[n], label=f'selftest n={n}', reach=['solved'], diff=True, eager=False) for n in (2, 5)]
