from llsym.build import CORE, GMG, GEOM
ID = 'C11'
SOURCES = [(p, ['-fopenmp'], []) for p in CORE + GMG + GEOM] + [('harness/C11.cpp', ['-fopenmp'], [])]
FLAGS = ['-DNDEBUG']
ASSUMPTIONS = [
    'every translation unit is compiled with -fopenmp; clang lowers the pragmas to __kmpc_* calls; the engine models the source-level OpenMP semantics of these calls (fork/join, static work-sharing loops, nowait, barriers, reductions under the runtime lock), not a particular runtime library (the repository is built with GCC/libgomp)',
    'race mode: one abstract thread runs a region; the selected work-sharing loop executes ONE iteration whose number is a symbolic integer over the loop\'s whole range, other loops are skipped; no assumption on which thread gets which iteration (no schedule clause in the sources): any two distinct iterations of one loop, any iterations of two loops not separated by a barrier, and replicated code of two threads may run concurrently',
    'an object is shared iff it exists before the region is entered; objects the thread allocates inside the region are private; values of shared doubles are havocked (they cannot influence an address), shared integers/pointers are read precisely',
    'obligation per region, phase, pair of path summaries and shared object: no pair of accesses with at least one write to overlapping bytes (z3, integers); sat = race with the two iteration numbers as the model',
    'regions are analysed one by one (between regions there is a join); grid shapes are concrete; the private, never-called task-based smoother variants are out of scope',
]
OUTSIDE = ['whole setup()+solve() as one program', 'races inside the OpenMP runtime', 'task-based smoother variants (private, not called)', 'grid shapes other than listed', 'vector kernels above 10 000 elements (their loops write x[i] only)']
BOUNDS = {'quick': 'shapes (9,8,auto) (7,12,3) (8,8,4); 13 operator regions + 9 transfer/GMGPolar regions', 'thorough': 'nC in 2..6, ntheta in {4,8,12,16,20}, nr up to 11'}


def jobs(tier, seed):
    J = []
    q = tier == 'quick'
    shapes = [(9, 8, -1), (7, 12, 3), (8, 8, 4)] if q else [(9, 8, -1), (7, 12, 3), (8, 8, 4), (7, 4, 2), (9, 16, 5), (10, 20, 6), (11, 8, 3), (6, 4, 3)]
    NAMES = ['residual give', 'residual take', 'smoother give', 'smoother take', 'extrapolated smoother give', 'extrapolated smoother take', 'direct solver give assembly',
             'direct solver take assembly', 'smoother give assembly', 'smoother take assembly', 'extrapolated smoother give assembly', 'extrapolated smoother take assembly', 'level caches']
    for (nr, nt, nC) in shapes:
        for op in range(13):
            if op in (4, 5, 10, 11) and (nr % 2 == 0):
                continue       # extrapolated smoothers need a finest-level grid (nr odd)
            dirbc = (op + nr) % 2
            J.append(dict(entry='h_region', args=[nr, nt, nC, dirbc, op], label=f'{NAMES[op]} {nr}x{nt} nC={nC} dirbc={dirbc}', cls=NAMES[op], reach=['parallel-code-reached'],
                          omp_race=True, threads=2, eager=True, feas_timeout=10, fork_int_selects=False, int_ranges=False, expect='any', concretize=True, witness=False, no_obligations_ok=True, max_paths=400, cap_quick=120))
    GN = ['prolongation', 'restriction', 'extrapolated prolongation', 'extrapolated restriction', 'injection', 'FMG interpolation', 'rhs build', 'extrapolated residual', 'exact error']
    for op in range(9):
        J.append(dict(entry='h_gmg_region', args=[op], label=f'{GN[op]} 9x8/5x4', cls=GN[op], reach=['parallel-code-reached'], omp_race=True, threads=2, eager=True, feas_timeout=10, int_ranges=False, expect='any', concretize=True,
                      libm_small=True, witness=False, no_obligations_ok=True, max_paths=400, cap_quick=120))
    return J


LEVEL_TEXT = ('Bounded symbolic race check: the -fopenmp IR of each parallel region is executed by one abstract thread with the iteration number of the selected work-sharing loop as a '
              'symbolic integer; the engine collects, per barrier-delimited phase, the (symbolic) addresses each iteration reads and writes in shared objects, and z3 decides for every '
              'pair of possibly concurrent iterations (same loop, different loops without a barrier in between, replicated code) that no two accesses with a write overlap - for '
              'EVERY iteration pair and hence every thread count and schedule. Grid shapes are concrete and bounded.')
LEVEL_NOTE = 'happens-before from the OpenMP calls in clang\'s lowering (source-level semantics, not libgomp); concrete grid shapes; regions analysed separately; no native TSan replay'
TECHNIQUE = 'symbolic execution of -fopenmp LLVM IR (llsym race mode: symbolic loop iteration) + SMT (z3, integer arithmetic) over access summaries'
DESIGN_REF = 'DESIGN.md section 0 (status as built: 0.2, 0.5, 0.6) and section 6/C11 (design)'
