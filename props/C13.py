from llsym.build import CORE, GMG, GEOM
ID = 'C13'
SOURCES = CORE + GMG + GEOM + ['harness/C13.cpp']
FLAGS = ['-DNDEBUG']
ASSUMPTIONS = [
    'self-composition: two GMGPolar states with identical options, real setup() on both; the "used" one then gets ARBITRARY leftovers in every member setup()/solve() are not documented to consume: residual_norms_ (0-3 symbolic entries), exact_errors_, number_of_iterations_, mean_residual_reduction_factor_, all work vectors of all levels, and (COMBINED mode: solve-without-setup history) either value of full_grid_smoothing_',
    'real solve() with real cycles on both, same symbolic right-hand side and tolerances; max_iterations <= 2',
    'a leftover state is reachable by a real history (first solve with >= leftover-count iterations, then solve() again); counterexamples are replayed natively from exactly this state',
    'h_resetup: the used object runs setup() (and optionally solve()) with a first configuration, then nr_exp/ntheta_exp, extrapolation, strategy and the boundary mode are rewritten as the setters do and setup(), solve() run again; compared with a fresh object of the second configuration: number of levels, level grid shapes, solution after one cycle, iteration count, reduction factor',
    'exact real arithmetic; sqrt/pow as in C01; coefficients via the small-rational libm mode; -DNDEBUG; GMGPolar state built directly',
]
OUTSIDE = ['option changes other than grid size, extrapolation, strategy and boundary mode before the second setup()', 'grids other than 9x8/5x4', 'more than 2 iterations']
BOUNDS = {'quick': 'second setup() on a used object: 9x8 -> 17x16 (more levels), 17x16 -> 9x8, same size with changed extrapolation/boundary mode, against a fresh object (levels, grids, solution, iteration count); COMBINED and no extrapolation, give, max_iterations 2, 2 leftover norms, with exact solution; 2 levels',
          'thorough': 'extrapolation 0-3, both strategies, FMG on/off, 0-3 leftover norms, V and F cycle, max_iterations 1-2'}


def jobs(tier, seed):
    J = []
    q = tier == 'quick'

    def add(ex, strat, dirbc, maxit, nleft, tolmode, exact, fmg, cyc, diff=False):
        J.append(dict(entry='h_reuse', args=[ex, strat, dirbc, maxit, nleft, tolmode, exact, fmg, cyc],
                      label=f'reuse ex={ex} strategy={strat} dirbc={dirbc} maxit={maxit} leftover={nleft} tol={tolmode} exact={exact} fmg={fmg} cycle={"VWF"[cyc]}',
                      cls='reuse-combined' if ex == 3 else 'reuse', reach=['states-built', 'both-solved'], eager=False, libm_small=True, diff=diff, witness=True,
                      cap_quick=30, cap_thorough=300, solver_budget_quick=120, batch=12, point_refutation=True))
    def resetup(ex, strat, dirbc, e1, e2, first, solve_between, maxlev, diff=False):
        J.append(dict(entry='h_resetup', args=[ex, strat, dirbc, e1, e2, first, solve_between, maxlev],
                      label=f'resetup to ex={ex} strategy={strat} dirbc={dirbc} size 2^{e1}->2^{e2} first-config={first} solve-between={solve_between} maxLevels={maxlev or -1}',
                      cls='resetup', reach=['first-life-done', 'both-set-up', 'both-solved'], eager=False, libm_small=True, diff=diff, witness='lazy',
                      cap_quick=30, cap_thorough=300, solver_budget_quick=120, batch=12, point_refutation=True))
    if q:
        # a second setup() on the same object: larger grid (more levels than the first admitted), smaller grid, changed options on the same grid
        resetup(0, 1, 0, 3, 4, 0 + 4 * 1 + 8 * 0, 1, 0)
        resetup(1, 0, 1, 4, 3, 0 + 4 * 1 + 8 * 0, 0, 0)
        resetup(0, 0, 1, 3, 3, 1 + 4 * 1 + 8 * 0, 1, 2, diff=True)
        add(3, 1, 0, 2, 2, 1, 1, 0, 0)
        add(0, 1, 1, 2, 2, 1, 1, 0, 0, diff=True)
        add(1, 0, 0, 1, 1, 1, 0, 1, 0)
        add(3, 1, 1, 1, 1, 1, 0, 1, 0)     # COMBINED with FMG: the start-up cycles must not see a leftover smoother switch either
    else:
        for (e1, e2) in ((3, 4), (4, 3), (3, 3), (4, 4)):
            for ex in (0, 1, 3):
                for first in (0, 1 + 4, 3 + 8, 2 + 4 + 8):
                    resetup(ex, (ex + e1) % 2, (first + e2) % 2, e1, e2, first, (ex + first) % 2, 0 if e1 != e2 else 2)
        for ex in (0, 1, 2, 3):
            for fmg in (0, 1):
                for nleft in (0, 1, 3):
                    strat, dirbc = (ex + fmg) % 2, (nleft + ex) % 2
                    add(ex, strat, dirbc, 2 if nleft else 1, nleft, 1 + (ex % 2), (ex + nleft) % 2, fmg, 0 if ex % 2 else 2)
    return J


LEVEL_TEXT = ('Bounded symbolic verification by self-composition: the real setup() and solve() (with the real cycles) run on two object states that differ only in arbitrary, symbolic '
              'leftovers of earlier solves; every pair of paths through the two convergence loops is followed and the solver proves that solution, iteration count, reduction factor '
              'and error figures are equal for ALL right-hand sides, tolerances and leftovers, and that the reported statistics do not depend on leftover values. Right level: '
              '"for every history" is covered by one step from an arbitrary leftover state instead of enumerating histories. A second setup() on a used object (other grid size, extrapolation, strategy, boundary mode) is compared with a fresh object: number of levels, level grids, solution, iteration count.')
LEVEL_NOTE = '9x8/5x4 hierarchy, <= 2 iterations; leftover state over-approximates real histories (counterexamples are confirmed by native replay from that state); exact arithmetic'
TECHNIQUE = 'symbolic execution of LLVM IR (llsym), self-composition of two solver states with path forking + SMT (z3 QF_NRA / cvc5 QF_LRA)'
DESIGN_REF = 'DESIGN.md section 0 (status as built: 0.2, 0.5, 0.6) and section 6/C13 (design)'
