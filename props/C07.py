from llsym.build import CORE
ID = 'C07'
SOURCES = CORE + ['harness/C07.cpp']
FLAGS = ['-DNDEBUG']
ASSUMPTIONS = [
    'exact real arithmetic for the equalities; "bit-for-bit unchanged" is decided on the operation tree of each coarse-node output: either it is the very input term (no floating-point operation was applied) or an IEEE-754 (QF_FP, round-to-nearest-even) query over the tree; a tree with more than 24 operations is reported as not bit-exact by construction',
    'grid spacings and per-node coefficients: small exact rationals satisfying arr, att > 0, 4 arr att >= art^2, detDF != 0, beta >= 0',
    'colour rule from the property text; coarse node = even radial and even angular index; finest-level grids only: nr odd, ntheta even (a coarser grid exists)',
    '-DNDEBUG build',
]
OUTSIDE = ['shapes other than listed', 'symbolic coefficients through the line solves']
BOUNDS = {'quick': '(7,4,3) (7,8,3) (9,8,auto) (7,12,3) (9,8,4: even number of circles) x both modes x both strategies x T in {1,2}',
          'thorough': '+ (7,8,4) (9,8,4) (9,8,5) (9,16,auto) (7,12,3) (11,8,4), 2 coefficient variants'}


def jobs(tier, seed):
    J = []
    q = tier == 'quick'
    shapes = [(7, 4, 3), (7, 8, 3), (9, 8, -1), (7, 12, 3), (9, 8, 4)] if q else [(7, 4, 3), (7, 8, 3), (7, 8, 4), (9, 8, -1), (9, 8, 4), (9, 8, 5), (7, 12, 3), (9, 16, -1), (11, 8, 4)]
    for (nr, nt, nC) in shapes:
        for dirbc in (0, 1):
            for strat in (0, 1):
                for T in (1, 2):
                    if q and T == 2 and strat == 0 and nr > 6 and nt != 12:
                        continue
                    for v in ((0,) if q else (0, 1)):
                        J.append(dict(entry='h_exsweep', args=[nr, nt, nC, dirbc, strat, T, 0, v], label=f'exsweep {nr}x{nt} nC={nC} dirbc={dirbc} strategy={strat} T={T} v={v}',
                                      cls='exsweep', reach=['operators-built', 'sweep-done'], eager=False, diff=(T == 1 and v == 0 and nr <= 7), batch=12))
    return J


LEVEL_TEXT = ('Bounded symbolic verification of the real ExtrapolatedSmootherGive/Take with iterate, right-hand side and scratch symbolic: for ALL vectors the values at nodes of the '
              'next coarser grid come back as the very same term that went in (no arithmetic applied: bit-for-bit), the residual (other strategy\'s operator) vanishes on the '
              'fine-only nodes of the last colour, the exact solution is a fixed point, give = take, and the scratch contents do not matter. Shapes are bounded.')
LEVEL_NOTE = 'exact arithmetic for equalities; structural / IEEE query for the bit-exact claim; numeric small-rational coefficient sets; shapes bounded'
TECHNIQUE = 'symbolic execution of LLVM IR (llsym) + SMT (cvc5 QF_LRA; z3 QF_FP for bit-exactness)'
DESIGN_REF = 'DESIGN.md section 0 (status as built: 0.2, 0.5, 0.6) and section 6/C07 (design)'
