from llsym.build import CORE
ID = 'C06'
SOURCES = CORE + ['harness/C06.cpp']
FLAGS = ['-DNDEBUG']
ASSUMPTIONS = [
    'exact real arithmetic; vector data (iterate, right-hand side, scratch contents) are free reals',
    'S2 runs: grid spacings and per-node coefficients are small exact rationals satisfying arr, att > 0, 4 arr att >= art^2, detDF != 0 (both signs), beta >= 0; 2 coefficient variants per shape',
    'colour rule taken from the property text (outermost circle black, alternate inwards; odd radial lines white; white after black; radial after circles), not from the code',
    'energy inequality only on the smallest grid (numeric coefficients)',
    '-DNDEBUG build (the line solvers\' tolerance asserts on pivots are premises)',
]
OUTSIDE = ['shapes other than listed', 'energy non-increase beyond the 5x4 grid', 'ntheta not divisible by 4 (not admissible)']
BOUNDS = {'quick': 'S2: (5,4,2) (6,4,3) (7,8,3) (9,8,auto) (7,12,3) x both modes x both strategies x T in {1,2}; energy: (5,4,2) Dirichlet',
          'thorough': 'S2 + (8,8,4) (9,8,5) (9,16,auto) (7,12,3), 2 variants; energy both modes, 3 variants'}


def jobs(tier, seed):
    J = []
    q = tier == 'quick'
    shapes = [(5, 4, 2), (6, 4, 3), (7, 8, 3), (9, 8, -1), (7, 12, 3)] if q else [(5, 4, 2), (6, 4, 3), (7, 8, 3), (8, 8, 4), (9, 8, -1), (9, 8, 5), (7, 12, 3), (9, 16, -1)]
    for (nr, nt, nC) in shapes:
        for dirbc in (0, 1):
            for strat in (0, 1):
                for T in (1, 2):
                    if q and T == 2 and strat == 0 and nr > 6 and nt != 12:
                        continue
                    for v in ((0,) if q else (0, 1)):
                        J.append(dict(entry='h_sweep', args=[nr, nt, nC, dirbc, strat, T, 0, v], label=f'sweep {nr}x{nt} nC={nC} dirbc={dirbc} strategy={strat} T={T} v={v}',
                                      cls='sweep', reach=['operators-built', 'sweep-done'], eager=False, diff=(T == 1 and v == 0 and nr <= 6), batch=12))
    # S3 (symbolic coefficients through the line solves) is run only when VERIF_C06_S3=1: z3 needs > 15 min per obligation
    import os
    if os.environ.get('VERIF_C06_S3'):
        for (nr, nt, nC) in [(5, 4, 2)]:
            J.append(dict(entry='h_sweep', args=[nr, nt, nC, 1, 1, 1, 1, 0], label=f'sweep-symbolic {nr}x{nt} nC={nC}', cls='sweep-symbolic',
                          reach=['operators-built', 'sweep-done'], eager=False, cap_quick=900, cap_thorough=600))
    for dirbc in ((1,) if q else (0, 1)):
        for v in ((0,) if q else (0, 1, 2)):
            J.append(dict(entry='h_energy', args=[5, 4, 2, dirbc, v % 2, v], label=f'energy 5x4 dirbc={dirbc} v={v}', cls='energy', reach=['energies-built'], eager=False,
                          cap_quick=240, witness=False))
    return J


LEVEL_TEXT = ('Bounded symbolic verification of the real SmootherGive/SmootherTake (constructors, A_sc assembly, line solves, inner-circle sparse LU) with iterate, right-hand '
              'side and scratch contents symbolic: the solver proves for ALL vectors that one sweep leaves the exact solution unchanged, zeroes the residual (measured by the other '
              'strategy\'s operator) on every line of the last colour, sets Dirichlet nodes to the data, equals the other strategy\'s sweep and ignores the scratch vector; '
              ' the energy inequality on the 5x4 grid. Shapes are bounded.')
LEVEL_NOTE = 'exact arithmetic; numeric small-rational coefficient sets (symbolic coefficients through the line solves were tried and are out of reach of z3 here); shapes bounded; energy only on 5x4'
TECHNIQUE = 'symbolic execution of LLVM IR (llsym) + SMT (cvc5 QF_LRA for the affine families, z3 QF_NRA for symbolic coefficients and the energy form)'
DESIGN_REF = 'DESIGN.md section 0 (status as built: 0.2, 0.5, 0.6) and section 6/C06 (design)'
