from llsym.build import CORE, GEOM
ID = 'C03'
SOURCES = CORE + GEOM + ['harness/C03.cpp']
FLAGS = []
ASSUMPTIONS = [
    'double -> exact real arithmetic (equality means equal in R; rounding is not modelled)',
    'grid invariant: r_0 > 0, h_i > 0, k_j > 0, k_{j+ntheta/2} = k_j',
    'K-sym coefficients: arr > 0, att > 0, detDF != 0, beta >= 0, alpha > 0; art free',
    'K-real: shipped geometry/profile classes on symbolic radii; sin/cos/exp/atan/tanh of a symbolic argument are uninterpreted functions',
    'divisions executed by the code under test are by non-zero values (premise of each obligation)',
]
OUTSIDE = ['grid shapes other than the listed ones', 'Culham geometry (its constructor integrates an ODE numerically: K-num only)',
           'rounding error of the floating-point evaluation']
BOUNDS = {'quick': 'shapes (nr,ntheta,nC): (5,4,2) (6,4,3) (7,8,3) (9,8,auto); both boundary modes; give threads 1,2',
          'thorough': 'nr 5..9, ntheta in {4,6,8,12}, every admissible nC, both boundary modes, give threads 1,2; 3 geometries x 4 profiles'}


def jobs(tier, seed):
    J = []
    if tier == 'quick':
        shapes = [(5, 4, 2), (6, 4, 3), (7, 8, 3), (9, 8, -1), (7, 12, 3), (6, 6, 2)]
    else:
        shapes = [(nr, nt, nC) for nr in range(5, 10) for nt in (4, 6, 8, 12) for nC in list(range(2, nr - 2)) + [-1]]
    for (nr, nt, nC) in shapes:
        for dirbc in (0, 1):
            for T in (1, 2):
                J.append(dict(entry='h_give_take', args=[nr, nt, nC, dirbc, T, 1], label=f'give_take {nr}x{nt} nC={nC} dirbc={dirbc} T={T}',
                              cls='give_take', reach=['residuals-computed'], diff=(T == 1 and dirbc == 0), eager=False))
    # detDF of free sign on the smallest shape
    J.append(dict(entry='h_give_take', args=[5, 4, 2, 0, 1, 0], label='give_take 5x4 detDF free sign', cls='give_take', reach=['residuals-computed'], eager=False))
    J.append(dict(entry='h_give_take', args=[5, 4, 2, 1, 2, -1], label='give_take 5x4 detDF negative', cls='give_take', reach=['residuals-computed'], eager=False))
    cshapes = [(5, 4, 2), (7, 8, 3)] if tier == 'quick' else [(5, 4, 2), (6, 4, 3), (7, 8, 3), (9, 8, -1), (7, 12, 3)]
    geos = [0, 1, 2]
    profs = [0, 3] if tier == 'quick' else [0, 1, 2, 3]
    for (nr, nt, nC) in cshapes:
        for gidx in geos:
            for p in profs:
                dirbc = (gidx + p) % 2
                J.append(dict(entry='h_cache_flags', args=[nr, nt, nC, dirbc, gidx, p, 1 + (p % 2)], label=f'cache_flags {nr}x{nt} nC={nC} geo={gidx} prof={p}',
                              cls='cache_flags', reach=['cache-variants-computed'], diff=(nr == 5 and p == 0), eager=False))
    # split classes: coarse circle i_r <-> fine circle 2 i_r inside the fine circle section / inside the fine RADIAL section
    # (2 (nCc-1) >= nCf), coarse radial nodes whose fine partners lie in the fine CIRCLE section (2 nCc < nCf)
    lshapes = [(9, 8, -1, -1), (9, 8, 4, 2), (9, 8, 3, 3), (9, 8, 6, 1)] if tier == 'quick' else [(9, 8, -1, -1), (9, 8, 4, 2), (9, 8, 3, 3), (9, 8, 2, 3), (9, 8, 6, 1), (11, 8, 5, 2), (11, 8, 3, 4), (9, 12, -1, -1), (13, 8, -1, -1), (13, 8, 4, 5)]
    for (nr, nt, nCf, nCc) in lshapes:
        for gidx in geos:
            for flags in (3, 2, 1) if tier == 'quick' else (3, 2, 1, 0):
                p = (gidx + flags) % 4
                J.append(dict(entry='h_levels', args=[nr, nt, nCf, nCc, flags % 2, gidx, p, flags], label=f'levels {nr}x{nt} nC={nCf}/{nCc} geo={gidx} prof={p} flags={flags}',
                              cls='levels', reach=['caches-built'], diff=(gidx == 0 and flags == 3), eager=False))
    return J

LEVEL_TEXT = ('Bounded symbolic verification: the real ResidualGive/ResidualTake/LevelCache code is executed symbolically from its LLVM IR with '
              'all vector entries, grid spacings and per-node coefficients as free real symbols; every node value of give, take and an independent '
              'reference stencil, of the four cache-flag variants and of inherited vs freshly evaluated coarse caches is proved equal by z3 for ALL '
              'values, on each listed grid shape. Right level: the property is a for-all over vectors/coefficients/spacings, which one symbolic run decides; '
              'sizes are bounded (shapes listed in the evidence).')
LEVEL_NOTE = ('exact real arithmetic (no rounding); shapes bounded as listed; sin/cos/exp/atan/tanh of symbolic arguments uninterpreted; '
              'trusted: clang 14 -O1 IR, llsym interpreter (checked per run by a bit-for-bit differential against a g++ -O2 build), z3')
TECHNIQUE = 'symbolic execution of LLVM IR (llsym) + SMT (z3 QF_NRA, one query per obligation)'
DESIGN_REF = 'DESIGN.md section 0 (status as built: 0.2, 0.5, 0.6) and section 6/C03 (design)'
