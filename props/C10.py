from llsym.build import CORE, GMG, GEOM
ID = 'C10'
SOURCES = CORE + GMG + GEOM + ['harness/C10.cpp']
FLAGS = ['-DNDEBUG']
ASSUMPTIONS = [
    'exact real arithmetic; iterate, right-hand sides and the old contents of every scratch vector are free reals; everything is affine in them',
    'the GMGPolar object state is built directly (no constructor: it runs the cmdline library, which has no IR); the real setup() is executed, then the six PRIVATE cycle functions are called directly (-fno-access-control)',
    'coefficients: the shipped geometry/profile classes with libm in small-rational mode (sin/cos of a node angle -> a rational point of the unit circle near the true one, other transcendental values rounded to denominator <= 64): "some admissible coefficient values"; R0 = 1/8, Rmax = 5/4',
    'extrapolated variants: "exact solution" means the exact solution of the extrapolated system, in two forms: (a) f_0 = A_0 u and f_1 = A_1 inject(u) (any smoothing counts: u is then also a fixed point of both smoothers); (b) h_ex_zero_residual: u, f_0 free and f_1 := A_1 inject(u) + 4 R_ex(f_0 - A_0 u), i.e. the extrapolated residual vanishes although f_0 != A_0 u (smoothing counts zero: the cycle must be the identity whatever the coarser levels do from a zero start with a zero right-hand side)',
    'thorough tier only: three-level cycles without smoothing against u + P M R(f - A u), M = what the cycle type prescribes on the next level from a zero start (V: one V cycle; W: two W cycles; F: an F cycle then a V cycle) carried out by the plain cycles of a second solver object - this restates the cycle structure of the code and is therefore not part of the quick verdict',
    '-DNDEBUG build',
]
OUTSIDE = ['more than 3 levels', 'grids other than 9x8/5x4 and 17x16/9x8/5x4', 'rounding']
BOUNDS = {'quick': 'V cycle plain and extrapolated, give, both boundary modes, (nu1,nu2) in {(1,1),(0,0),(2,0),(0,2)}; every one of the six cycle functions on 2 levels (fixed point and nu=0 coarse correction) and on 3 levels (17x16/9x8/5x4: fixed point; extrapolated cycles also from a zero-extrapolated-residual iterate without smoothing)',
          'thorough': 'V/W/F x plain/extrapolated x both strategies x both modes x (nu1,nu2) in {(0,0),(1,1),(2,1),(0,2)} x extrapolation modes 0-3 (COMBINED with either smoother active); 2 levels, and 3 levels for the fixed point'}


def jobs(tier, seed):
    J = []
    q = tier == 'quick'

    def add(entry, cyc, ex, strat, dirbc, nu1, nu2, lev3, geo, prof, fgs, diff=False):
        J.append(dict(entry=entry, args=[cyc, ex, strat, dirbc, nu1, nu2, lev3, geo, prof, fgs],
                      label=f'{entry[2:]} cycle={"VWF"[cyc]} ex={ex} strategy={strat} dirbc={dirbc} nu=({nu1},{nu2}) levels={3 if lev3 else 2} geo={geo} prof={prof} fgs={fgs}',
                      cls=entry[2:], reach=['setup-done', 'cycle-done'], eager=False, libm_small=True, diff=diff, batch=12, witness=('lazy' if (entry == 'h_ex_zero_residual' or (lev3 and entry == 'h_coarse_correction')) else False), solver_budget_quick=150))
    if q:
        for ex in (0, 1):
            for dirbc in (0, 1):
                add('h_fixed_point', 0, ex, 1, dirbc, 1, 1, 0, 1, 3, 0, diff=(ex == 0 and dirbc == 0))
                add('h_coarse_correction', 0, ex, 1, dirbc, 0, 0, 0, 1, 3, 0)
        add('h_fixed_point', 1, 0, 0, 0, 1, 1, 0, 0, 0, 0)
        add('h_fixed_point', 2, 3, 0, 1, 1, 1, 0, 0, 0, 1)
        add('h_fixed_point', 0, 2, 1, 0, 1, 1, 0, 0, 0, 0)
        add('h_coarse_correction', 1, 1, 0, 0, 1, 1, 0, 0, 0, 0)
        add('h_coarse_correction', 2, 0, 1, 1, 0, 0, 0, 0, 0, 0)
        # the two-level (direct-solve) branch of each of the six cycle functions against the algebraic correction, and from the fixed point
        add('h_coarse_correction', 1, 1, 0, 0, 0, 0, 0, 0, 0, 0)
        add('h_coarse_correction', 1, 0, 1, 1, 0, 0, 0, 0, 0, 0)
        add('h_coarse_correction', 2, 2, 0, 1, 0, 0, 0, 0, 0, 0)
        add('h_fixed_point', 1, 1, 1, 1, 1, 1, 0, 0, 0, 0)
        add('h_fixed_point', 2, 0, 1, 0, 1, 1, 0, 0, 0, 0)
        # other smoothing counts (0 and >= 2 on either side)
        add('h_fixed_point', 0, 1, 0, 1, 2, 0, 0, 0, 0, 0)
        add('h_fixed_point', 2, 0, 1, 1, 0, 2, 0, 0, 0, 0)
        # three levels: the recursive branches of the F and W cycles (stale scratch vectors on the intermediate level)
        add('h_fixed_point', 2, 0, 0, 0, 1, 1, 1, 0, 0, 0)
        add('h_fixed_point', 1, 1, 1, 1, 1, 1, 1, 0, 0, 0)
        # extrapolated cycles without smoothing from an iterate whose EXTRAPOLATED residual vanishes (f != A u): identity, on 3 and 2 levels
        add('h_ex_zero_residual', 2, 1, 0, 0, 0, 0, 1, 0, 0, 0)
        add('h_ex_zero_residual', 1, 2, 1, 1, 0, 0, 1, 0, 0, 0)
        add('h_ex_zero_residual', 0, 1, 1, 0, 0, 0, 1, 0, 0, 0)
        add('h_ex_zero_residual', 1, 1, 0, 1, 0, 0, 0, 0, 0, 0)
        add('h_fixed_point', 0, 1, 0, 0, 1, 1, 1, 0, 0, 0)
        add('h_fixed_point', 2, 2, 1, 0, 1, 1, 1, 0, 0, 0)
    else:
        for cyc in (0, 1, 2):
            for ex in (0, 1, 2, 3):
                for strat in (0, 1):
                    for dirbc in (0, 1):
                        for (nu1, nu2) in ((0, 0), (1, 1), (2, 1), (0, 2)):
                            for fgs in ((0, 1) if ex == 3 else (0,)):
                                geo, prof = ((cyc + strat) % 2, (dirbc * 3 + ex) % 4)
                                add('h_fixed_point', cyc, ex, strat, dirbc, nu1, nu2, 0, geo, prof, fgs)
                                add('h_coarse_correction', cyc, ex, strat, dirbc, nu1, nu2, 0, geo, prof, fgs)
                        add('h_fixed_point', cyc, ex, strat, dirbc, 1, 1, 1, 0, 0, 0)
                        if ex:
                            add('h_ex_zero_residual', cyc, ex, strat, dirbc, 0, 0, 1, 0, 0, 0)
                            add('h_ex_zero_residual', cyc, ex, strat, dirbc, 0, 0, 0, 1, 3, 0)
                        if ex < 2:
                            add('h_coarse_correction', cyc, ex, strat, dirbc, 0, 0, 1, 0, 0, 0)
    return J


LEVEL_TEXT = ('Bounded symbolic verification: the real GMGPolar::setup() and the six private cycle functions are executed symbolically on a two-level (three-level) hierarchy with '
              'the iterate, both right-hand sides and the stale contents of all work vectors as free reals. cvc5 proves for ALL vectors that a cycle started from the exact solution '
              'returns it, that without smoothing the two-level cycle equals u + P A_c^-1 R(f - A u) (extrapolated: 4/3 R_ex(f - A u) - 1/3 (f_c - A_c inject u)) assembled from '
              'separately built operators of the other strategy, and that the result is independent of the scratch contents. Hierarchy sizes bounded.')
LEVEL_NOTE = 'exact arithmetic; coefficient values from the small-rational libm mode; 2 levels (3 in thorough for the fixed point); object state built directly'
TECHNIQUE = 'symbolic execution of LLVM IR (llsym) of setup() + private cycle functions + SMT (cvc5 QF_LRA, one query per obligation)'
DESIGN_REF = 'DESIGN.md section 0 (status as built: 0.2, 0.5, 0.6) and section 6/C10 (design)'
