from llsym.build import CORE, GMG, GEOM
ID = 'C09'
SOURCES = CORE + GMG + GEOM + ['harness/C09.cpp']
FLAGS = ['-DNDEBUG']
ASSUMPTIONS = [
    'exact real arithmetic',
    'weights (h_fmg_node): all grid spacings symbolic (h, k > 0, antipodal periodicity); per target fine node the coarse vector is a tensor polynomial in LOCAL signed distances (cubic in r at radially interior odd nodes, cubic in theta at odd angular nodes, wrap included) on exactly the admissible neighbours and UNCONSTRAINED symbols on every other coarse node; the result must equal the polynomial at distance 0 for all of them',
    'next-to-boundary radial rule: linear polynomial under the midpoint assumption h_{i-1} = h_i (same caveat as finding F1), two non-negative weights',
    'start-up (h_start): with FMG iterations >= 1 the oracle is the nested iteration written out in the harness on a second solver object (coarsest direct solve; per level FMG interpolation + the configured number of cycles of the configured type, calling the private cycle functions, which are C10\'s subject); GMGPolar state built directly, real setup(), FMG on, max_iterations = 0, right-hand sides of all levels and ALL work vectors symbolic; coefficients via the small-rational libm mode',
    '-DNDEBUG build',
]
OUTSIDE = ['grid pairs other than listed', 'start-up with more than 3 levels']
BOUNDS = {'quick': 'weights: every non-coarse fine node of (9,8)<-(5,4) and the node classes of (11,8)<-(6,4), two split variants; start-up: 2 levels, FMG iterations 0 and 1, V cycle, plain and extrapolated; 3 levels (17x16/9x8/5x4) with W, F (1 iteration) and V (2 iterations, extrapolated) against the nested iteration written out on a second solver object',
          'thorough': 'weights: + (9,16) (13,8) (11,12); start-up: 2 and 3 levels, iterations 0,1,2, V/W/F, extrapolation 0/1, both strategies and modes'}


def jobs(tier, seed):
    J = []
    q = tier == 'quick'
    pairs = [(9, 8, -1, -1), (11, 8, 4, 2)] if q else [(9, 8, -1, -1), (9, 8, 4, 1), (11, 8, 4, 2), (9, 16, -1, -1), (13, 8, 5, 3), (11, 12, 3, 2)]
    for pi, (nr, nt, nCf, nCc) in enumerate(pairs):
        for ir in range(nr):
            its = range(nt) if (pi == 0 or not q) and nt <= 8 else (0, 1, nt - 1, nt // 2 + 1)
            for it in its:
                if q and pi > 0 and not (ir in (0, 1, 2, 3, 5, nr - 4, nr - 2, nr - 1)):
                    continue
                dirbc = (ir + it) % 2
                J.append(dict(entry='h_fmg_node', args=[nr, nt, nCf, nCc, dirbc, ir, it], label=f'fmg node {nr}x{nt} nC={nCf}/{nCc} target=({ir},{it})', cls='fmg-weights',
                              reach=['interpolated'], eager=False, diff=(pi == 0 and ir in (1, 3) and it in (0, 3, 7))))

    def start(lev3, its, cyc, ex, strat, dirbc, geo, prof, diff=False):
        J.append(dict(entry='h_start', args=[lev3, its, cyc, ex, strat, dirbc, geo, prof], label=f'start levels={3 if lev3 else 2} fmg_iterations={its} cycle={"VWF"[cyc]} ex={ex} strategy={strat} dirbc={dirbc}',
                      cls='start', reach=['setup-done', 'solve-done'], eager=False, libm_small=True, diff=diff, batch=12, witness='lazy', solver_budget_quick=120))
    if q:
        start(0, 0, 0, 0, 1, 0, 1, 3, diff=True)
        start(0, 1, 0, 0, 1, 1, 1, 3)
        start(0, 1, 0, 1, 0, 0, 0, 0)
        start(0, 0, 0, 1, 0, 1, 0, 0)
        # three levels: the cycle type matters (V = W = F when only the coarsest level lies below); every FMG cycle type once
        start(1, 1, 1, 0, 0, 0, 0, 0)
        start(1, 1, 2, 0, 1, 1, 0, 0)
        start(1, 2, 0, 1, 0, 0, 0, 0)
        start(0, 1, 1, 1, 1, 0, 0, 0)
        start(0, 1, 2, 2, 0, 1, 0, 0)
    else:
        for lev3 in (0, 1):
            for its in (0, 1, 2):
                for cyc in (0, 1, 2):
                    for ex in (0, 1):
                        strat, dirbc = (its + cyc) % 2, (cyc + ex) % 2
                        if lev3 and (its == 2 or cyc == 1):
                            continue
                        start(lev3, its, cyc, ex, strat, dirbc, (ex + lev3) % 2, (its * 2 + ex) % 4)
    return J


LEVEL_TEXT = ('Bounded symbolic verification: (1) the real applyFMGInterpolation is executed with all spacings symbolic; for every fine node class z3 proves for ALL spacings that '
              'coarse values are returned, constants and (tensor) cubics in local distances are reproduced at radially interior nodes from exactly the four admissible neighbours '
              '(every other coarse value is an unconstrained symbol), and that the two lines next to the boundaries use a convex two-point rule; (2) the real setup() + solve() '
              'start-up with FMG is executed with all right-hand sides and all work vectors symbolic: the start vector must equal the harness\'s own coarsest solve + level-by-level '
              'FMG interpolation and must not depend on stale data; with FMG iterations >= 1 it must equal the nested iteration written out on a second solver object (configured cycle type and count, extrapolated variant on the finest level only), on 2 and 3 levels. Shapes / level counts bounded.')
LEVEL_NOTE = 'exact arithmetic; shapes and 2-3 levels bounded; start-up coefficients from the small-rational libm mode; GMGPolar state built directly'
TECHNIQUE = 'symbolic execution of LLVM IR (llsym) + SMT (z3 QF_NRA for the weights with symbolic spacings, cvc5 QF_LRA for the start-up)'
DESIGN_REF = 'DESIGN.md section 0 (status as built: 0.2, 0.5, 0.6) and section 6/C09 (design)'
