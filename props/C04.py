from llsym.build import CORE
ID = 'C04'
SOURCES = CORE + ['harness/C04.cpp']
FLAGS = ['-DNDEBUG']
ASSUMPTIONS = [
    'exact real arithmetic ("zero up to rounding relative to the entries" is decided as exactly zero in R; the size of the floating-point deviation and huge dynamic ranges are not decided)',
    'h_solve: right-hand sides symbolic; grid spacings and coefficients small exact rationals (arr, att > 0, 4 arr att >= art^2, detDF of both signs, beta >= 0), 2 variants; the LU pivots met are non-zero rationals (the run would stop otherwise)',
    'h_matrix: the assembled CSR matrix before factorisation equals the operator row by row for ALL coefficients and spacings (symbolic)',
    'T = 1 and T = 3 select the sequential and the coloured assembly path (executed in program order; races: C11)',
    '-DNDEBUG build',
]
OUTSIDE = ['MUMPS variants (not built)', 'grids larger than listed', 'rounding / dynamic range']
BOUNDS = {'quick': 'solve: (5,4,2) (6,4,3) (9,8,auto) (7,12,3: ntheta % 3 = 0, not a power of two) both modes, both strategies, T in {1,3}; matrix: (5,4,2) (6,4,3) (7,8,3) (9,8,auto)',
          'thorough': 'solve + (7,8,3) (8,8,4) (9,16,auto); matrix on nr 5..9 x ntheta {4,8,12}'}


def jobs(tier, seed):
    J = []
    q = tier == 'quick'
    for (nr, nt, nC) in ([(5, 4, 2), (6, 4, 3), (9, 8, -1), (7, 12, 3)] if q else [(5, 4, 2), (6, 4, 3), (7, 8, 3), (8, 8, 4), (9, 8, -1), (9, 16, -1), (7, 12, 3), (6, 6, 2)]):
        for dirbc in (0, 1):
            for strat in (0, 1):
                for T in (1, 3):
                    if q and nr in (9, 7) and (T == 3) != (strat == 1):
                        continue
                    v = (dirbc + strat) % 2
                    J.append(dict(entry='h_solve', args=[nr, nt, nC, dirbc, strat, T, v], label=f'solve {nr}x{nt} nC={nC} dirbc={dirbc} strategy={strat} T={T}', cls='solve',
                                  reach=['factorised', 'solved'], eager=False, diff=(nr <= 6 and T == 1), batch=16, witness=False))
    for (nr, nt, nC) in ([(5, 4, 2), (6, 4, 3), (7, 8, 3), (9, 8, -1), (7, 12, 3)] if q else [(nr, nt, nC) for nr in (5, 6, 7, 8, 9) for nt in (4, 8, 12) for nC in (2, 3, -1) if nC < nr - 2]):
        for dirbc in (0, 1):
            for strat in (0, 1):
                T = 3 if (nt % 3 == 0 or (nr + dirbc + strat) % 2 == 0) else 1
                J.append(dict(entry='h_matrix', args=[nr, nt, nC, dirbc, strat, T], label=f'matrix {nr}x{nt} nC={nC} dirbc={dirbc} strategy={strat} T={T}', cls='matrix',
                              reach=['assembled'], eager=False, diff=(nr == 5)))
    return J


LEVEL_TEXT = ('Bounded symbolic verification of the real DirectSolver{Give,Take}CustomLU: (1) with symbolic right-hand sides the in-place solve (assembly + sparse LU executed on exact '
              'rationals) is proved to have zero residual under the OTHER strategy\'s residual operator and to equal the other strategy\'s solve, for every right-hand side; '
              '(2) the assembled matrix equals the operator row by row for ALL coefficients and spacings. Grid shapes are bounded.')
LEVEL_NOTE = 'exact arithmetic; solve with numeric small-rational coefficient sets, matrix assembly with symbolic coefficients; shapes bounded; MUMPS variants not built'
TECHNIQUE = 'symbolic execution of LLVM IR (llsym) + SMT (cvc5 QF_LRA for the solve, z3 QF_NRA for the assembled matrix)'
DESIGN_REF = 'DESIGN.md section 0 (status as built: 0.2, 0.5, 0.6) and section 6/C04 (design)'
