ID = 'C19'
SOURCES = ['repo:src/InputFunctions/DomainGeometry/*.cpp', 'repo:src/InputFunctions/DensityProfileCoefficients/*.cpp',
           'repo:src/InputFunctions/BoundaryConditions/cartesianR*_Boundary_C*.cpp', 'repo:src/InputFunctions/BoundaryConditions/cartesianR*_Boundary_S*.cpp',
           'repo:src/InputFunctions/BoundaryConditions/polarR6_Boundary_Ci*.cpp', 'repo:src/InputFunctions/BoundaryConditions/polarR6_Boundary_Cz*.cpp',
           'repo:src/InputFunctions/BoundaryConditions/polarR6_Boundary_S*.cpp',
           'repo:src/InputFunctions/ExactSolution/cartesianR*.cpp', 'repo:src/InputFunctions/ExactSolution/polarR6_Ci*.cpp',
           'repo:src/InputFunctions/ExactSolution/polarR6_Cz*.cpp', 'repo:src/InputFunctions/ExactSolution/polarR6_S*.cpp',
           'repo:src/InputFunctions/SourceTerms/cartesianR*.cpp', 'repo:src/InputFunctions/SourceTerms/polarR6_*_CircularGeometry.cpp',
           'repo:src/InputFunctions/SourceTerms/polarR6_*_ShafranovGeometry.cpp', 'repo:src/InputFunctions/SourceTerms/polarR6_*_CzarnyGeometry.cpp', 'harness/C19.cpp']
FLAGS = ['-DNDEBUG', '-include', '/verif/harness/vpi.h']   # M_PI as an opaque constant, see harness/vpi.h
ASSUMPTIONS = [
    'decided: (1) the four Jacobian functions of Circular, Shafranov and Czarny geometry are the formal partial derivatives of Fx, Fy at every (r, theta), with sin(theta), cos(theta) as symbols s, c (s^2 + c^2 = 1, ds/dtheta = c, dc/dtheta = -s), parameters at their defaults and symbolic in (0,1) x (0,inf); Culham: the theta-derivatives at a concrete radius (its radial profiles are tabulated); (2) beta * alpha = 1 and alpha > 0 for the three gyro profiles for every 0 < r <= Rmax; (3) u_D and u_D_Interior equal the exact solution at every point, for the 9 (problem, geometry) pairs',
    'source term = -div(alpha grad u) + beta u in the metric of the mapping (formal second derivatives of the exact solution): DECIDED by z3 for 15 of the 63 non-Culham classes - Circular geometry x {Poisson, Zoni, ZoniShifted, ZoniGyro, ZoniShiftedGyro} x {CartesianR2, CartesianR6, PolarR6}. For these M_PI is an opaque symbol (harness/vpi.h, force-included: the identity is formal in pi) and double literals with at most 9 significant digits are read as the decimals the programmer wrote (0.4096 * 6 = 2.4576 exactly); sin(k theta), cos(k theta) for k <= 4 are tied to the symbols s, c by the multiple-angle formulas',
    'the other 48 classes are REFUTATION-ONLY jobs: the identity is evaluated at three explicit points of the domain with true function values and, where it fails, the point is replayed natively against a fourth-order finite-difference evaluation of the operator (tolerance 2e-5 relative). Nothing is claimed for them when no counterexample is found: Sonnendrucker(Gyro) profiles ship 15-digit truncations of 130/9, 10/13, ... (identity true to ~1e-15 only; solver models below the replay tolerance), Shafranov/Czarny geometry: timeout with both solvers. Not addressed at all: the Culham class, the selection tables of select_test_case.cpp',
    'formal differentiation is done by the encoder (chain rule through sqrt, exp, atan, tanh, sin, cos, pow); the solver decides the resulting identities over the atoms with sqrt axioms t >= 0, t^2 = x, Pythagorean identities for every sin/cos pair and exp(a) exp(-a) = 1 where both occur; exact real arithmetic',
]
OUTSIDE = ['a proof of the source-term identity for 48 of the 63 classes (refutation only)', 'Culham r-derivatives and the Culham source term', 'RefinedRadius problem classes']
BOUNDS = {'quick': 'Jacobians: 4 geometries (default and symbolic parameters); 3 gyro profiles; 9 boundary/exact-solution pairs; source-term identity: 15 classes decided, 48 refutation-only (3 explicit points each, solver caps 10 s)', 'thorough': 'same, solver caps 40 s for the refutation-only classes'}


# source-term identity.  M_PI is an opaque symbol (harness/vpi.h) and short decimal literals are read as decimals (job option
# decimal_literals): without these clang's folded 8.0 * (M_PI * M_PI) and 2.4576 = 6 * 0.4096 make exact equality false by one rounding.
import os
# Decided (z3, <= 150 s each): Circular geometry x the five profiles without atan x the three problems = 15 of the 63 classes.
# Not decided: the Sonnendrucker(Gyro) profiles (their shipped constants are 15-digit truncations of 130/9, 10/13, ...: the identity
# holds to ~1e-15 only, z3 returns models that differ from it by that much and nothing reproduces natively); Shafranov and Czarny
# geometry (timeout at 150 s with both solvers).  C19_ALL_SOURCE=1 registers all 63 for experiments.
SOURCE_CLASSES = (tuple((pr, g, prof) for pr in range(3) for g in range(3) for prof in range(7)) if os.environ.get('C19_ALL_SOURCE')
                  else tuple((pr, 0, prof) for pr in range(3) for prof in (0, 2, 3, 5, 6)))


def jobs(tier, seed):
    J = []
    GN = ['Circular', 'Shafranov', 'Czarny', 'Culham']
    for g in range(4):
        for symp in ((0, 1) if g in (1, 2) else (0,)):
            J.append(dict(entry='h_jacobian', args=[g, symp], label=f'jacobian {GN[g]} symbolic-parameters={symp}', cls=f'jacobian-{GN[g]}', reach=['geometry-built'], eager=False,
                          diff=(symp == 0 and g < 3), witness=(g != 3), cap_quick=240, cap_thorough=300, round_concrete=(g == 3)))
    for p, nm in enumerate(('SonnendruckerGyro', 'ZoniGyro', 'ZoniShiftedGyro')):
        J.append(dict(entry='h_gyro', args=[p], label=f'gyro profile {nm}', cls='gyro', reach=['profile-built'], eager=False, witness=False, cap_quick=240))
    for pr, pn in enumerate(('CartesianR2', 'CartesianR6', 'PolarR6')):
        for g in range(3):
            J.append(dict(entry='h_boundary', args=[pr, g], label=f'boundary {pn} {GN[g]}', cls='boundary', reach=['classes-built'], eager=False, diff=True, witness=False, cap_quick=240))
    PN = ('CartesianR2', 'CartesianR6', 'PolarR6')
    PR = ('Poisson', 'Sonnendrucker', 'Zoni', 'ZoniShifted', 'SonnendruckerGyro', 'ZoniGyro', 'ZoniShiftedGyro')
    for (pr, g, prof) in SOURCE_CLASSES:
        if True:
            J.append(dict(entry='h_source_term', args=[pr, g, prof], label=f'source term {PN[pr]} {PR[prof]} {GN[g]}', cls=f'source-term-{PN[pr]}-{PR[prof]}-{GN[g]}', reach=['classes-built'], eager=False, diff=True, witness=False, decimal_literals=True, margin_rel='0.0002',
                          cap_quick=int(os.environ.get('C19_CAP', 240)), cap_thorough=600))
    # the other 48 classes: beyond the solver on a correct tree (see SOURCE_CLASSES).  Registered as refutation-only jobs: the
    # identity is evaluated at explicit points of the domain (true sin/cos/tanh/atan values) and, where it fails there, the
    # point is replayed natively against a fourth-order finite-difference evaluation of the operator; nothing is claimed
    # for them when no counterexample is found (evidence: refutation_only_not_decided)
    import math
    pts = []
    for (tn, td, r) in ((1, 2, 0.3), (-3, 2, 0.7), (5, 3, 1.1)):
        t = tn / td
        sv, cv = 2 * t / (1 + t * t), (1 - t * t) / (1 + t * t)
        from fractions import Fraction as _F
        sx, cx = _F(2 * tn * td, td * td + tn * tn), _F(td * td - tn * tn, td * td + tn * tn)
        pts.append({'r_0_0': str(_F(r).limit_denominator(100)), 'theta_0_0': math.atan2(sv, cv), 's_0_0': str(sx), 'c_0_0': str(cx), 'pi': math.pi})
    if not os.environ.get('C19_ALL_SOURCE'):
        for pr in range(3):
            for g in range(3):
                for prof in range(7):
                    if (pr, g, prof) in SOURCE_CLASSES:
                        continue
                    J.append(dict(entry='h_source_term', args=[pr, g, prof], label=f'source term (refutation only) {PN[pr]} {PR[prof]} {GN[g]}', cls=f'source-term-{PN[pr]}-{PR[prof]}-{GN[g]}',
                                  reach=['classes-built'], eager=False, witness=True, witness_points=pts, real_ufs=True, decimal_literals=True, undecided_ok=True,
                                  margin_rel='0.0002', cap_quick=10, cap_thorough=40, solver_budget_quick=25, solver_budget_thorough=120))
    return J


LEVEL_TEXT = ('Bounded symbolic verification of the input-function classes: each shipped geometry / profile / boundary / exact-solution class is executed symbolically at an arbitrary point '
              '(r, theta, sin theta, cos theta symbolic); the encoder differentiates the mapping formally and z3 proves the Jacobian functions equal those derivatives, beta = 1/alpha '
              'for the gyro profiles and boundary data = exact solution, for ALL points (and parameter values). The source-term identity f = -div(alpha grad u) + beta u is decided for the 15 Circular-geometry classes without atan profiles; the other 48 classes are searched for counterexamples only.')
LEVEL_NOTE = 'partial claim: Jacobians, beta = 1/alpha, boundary data; source-term identity proved for 15 of 63 classes, refutation-only for the rest; Culham only in theta at a concrete radius'
TECHNIQUE = 'symbolic execution of LLVM IR (llsym) + formal differentiation of the term DAG + SMT (z3 QF_NRA with sqrt / trigonometric / exponential axioms)'
DESIGN_REF = 'DESIGN.md section 0 (status as built: 0.2, 0.5, 0.6) and section 6/C19 (design)'
