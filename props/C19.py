ID = 'C19'
SOURCES = ['repo:src/InputFunctions/DomainGeometry/*.cpp', 'repo:src/InputFunctions/DensityProfileCoefficients/*.cpp',
           'repo:src/InputFunctions/BoundaryConditions/cartesianR*_Boundary_C*.cpp', 'repo:src/InputFunctions/BoundaryConditions/cartesianR*_Boundary_S*.cpp',
           'repo:src/InputFunctions/BoundaryConditions/polarR6_Boundary_Ci*.cpp', 'repo:src/InputFunctions/BoundaryConditions/polarR6_Boundary_Cz*.cpp',
           'repo:src/InputFunctions/BoundaryConditions/polarR6_Boundary_S*.cpp',
           'repo:src/InputFunctions/ExactSolution/cartesianR*.cpp', 'repo:src/InputFunctions/ExactSolution/polarR6_Ci*.cpp',
           'repo:src/InputFunctions/ExactSolution/polarR6_Cz*.cpp', 'repo:src/InputFunctions/ExactSolution/polarR6_S*.cpp',
           'repo:src/InputFunctions/SourceTerms/*_Poisson_CircularGeometry.cpp', 'repo:src/InputFunctions/SourceTerms/*_Poisson_ShafranovGeometry.cpp', 'harness/C19.cpp']
FLAGS = ['-DNDEBUG', '-include', '/verif/harness/vpi.h']   # M_PI as an opaque constant, see harness/vpi.h
ASSUMPTIONS = [
    'decided: (1) the four Jacobian functions of Circular, Shafranov and Czarny geometry are the formal partial derivatives of Fx, Fy at every (r, theta), with sin(theta), cos(theta) as symbols s, c (s^2 + c^2 = 1, ds/dtheta = c, dc/dtheta = -s), parameters at their defaults and symbolic in (0,1) x (0,inf); Culham: the theta-derivatives at a concrete radius (its radial profiles are tabulated); (2) beta * alpha = 1 and alpha > 0 for the three gyro profiles for every 0 < r <= Rmax; (3) u_D and u_D_Interior equal the exact solution at every point, for the 9 (problem, geometry) pairs',
    'source term = -div(alpha grad u) + beta u in the metric of the mapping: decided for PolarR6 / Poisson / Circular only (formal second derivatives of the exact solution, z3); NOT decided for the other 63 classes (Cartesian problems: compile-time rounded powers of pi make exact equality false by ~1e-16; larger classes: solver time), the radial derivatives of the Culham mapping (tabulated ODE solution), the selection tables of select_test_case.cpp',
    'formal differentiation is done by the encoder (chain rule through sqrt, exp, atan, tanh, sin, cos, pow); the solver decides the resulting identities over the atoms with sqrt axioms t >= 0, t^2 = x, Pythagorean identities for every sin/cos pair and exp(a) exp(-a) = 1 where both occur; exact real arithmetic',
]
OUTSIDE = ['the source-term identities', 'Culham r-derivatives', 'RefinedRadius problem classes']
BOUNDS = {'quick': 'Jacobians: 4 geometries (default and symbolic parameters); 3 gyro profiles; 9 boundary/exact-solution pairs', 'thorough': 'same'}


# source-term identity: only the class z3 decides exactly.  CartesianR2/R6 (both geometries): the shipped formulas contain compile-time
# rounded powers of pi (8.0 * (M_PI * M_PI) is one double), so exact equality with the formal derivative fails by ~1e-16 relative
# (solver models do not reproduce natively: treated as inconclusive, not as findings); PolarR6 on Shafranov: timeout at 240 s.
SOURCE_CLASSES = ((2, 0), (0, 0), (1, 0), (0, 1), (1, 1), (2, 1))


def jobs(tier, seed):
    J = []
    GN = ['Circular', 'Shafranov', 'Czarny', 'Culham']
    for g in range(4):
        for symp in ((0, 1) if g in (1, 2) else (0,)):
            J.append(dict(entry='h_jacobian', args=[g, symp], label=f'jacobian {GN[g]} symbolic-parameters={symp}', cls=f'jacobian-{GN[g]}', reach=['geometry-built'], eager=False,
                          diff=(symp == 0 and g < 3), witness=(g != 3), cap_quick=240, cap_thorough=300, round_concrete=(g == 3)))
    for p, nm in enumerate(('SonnendruckerGyro', 'ZoniGyro', 'ZoniShiftedGyro')):
        J.append(dict(entry='h_gyro', args=[p], label=f'gyro profile {nm}', cls='gyro', reach=['profile-built'], eager=False, witness=False, cap_quick=240))
    for pr, pn in enumerate(('CartesianR2', 'CartesianR6', 'PolarR6')):
        for g in range(3):
            J.append(dict(entry='h_boundary', args=[pr, g], label=f'boundary {pn} {GN[g]}', cls='boundary', reach=['classes-built'], eager=False, diff=True, witness=False, cap_quick=240))
    PN = ('CartesianR2', 'CartesianR6', 'PolarR6')
    for (pr, g) in SOURCE_CLASSES:
        if True:
            J.append(dict(entry='h_source_term', args=[pr, g], label=f'source term {PN[pr]} Poisson {GN[g]}', cls='source-term', reach=['classes-built'], eager=False, diff=True, witness=False, decimal_literals=True,
                          cap_quick=240, cap_thorough=600))
    return J


LEVEL_TEXT = ('Bounded symbolic verification of the input-function classes: each shipped geometry / profile / boundary / exact-solution class is executed symbolically at an arbitrary point '
              '(r, theta, sin theta, cos theta symbolic); the encoder differentiates the mapping formally and z3 proves the Jacobian functions equal those derivatives, beta = 1/alpha '
              'for the gyro profiles and boundary data = exact solution, for ALL points (and parameter values). The source-term identity is decided for one class only (PolarR6/Poisson/Circular).')
LEVEL_NOTE = 'partial claim: Jacobians, beta = 1/alpha, boundary data; source-term identity only for PolarR6/Poisson/Circular; Culham only in theta at a concrete radius'
TECHNIQUE = 'symbolic execution of LLVM IR (llsym) + formal differentiation of the term DAG + SMT (z3 QF_NRA with sqrt / trigonometric / exponential axioms)'
DESIGN_REF = 'DESIGN.md section 6/C19'
