from llsym.build import CORE, GEOM
ID = 'C01'
SOURCES = CORE + GEOM + ['repo:src/GMGPolar/solver.cpp', 'repo:src/GMGPolar/setup.cpp', 'repo:src/GMGPolar/build_rhs_f.cpp',
                         'repo:src/GMGPolar/level_interpolation.cpp', 'repo:src/GMGPolar/writeToVTK.cpp', 'harness/C01.cpp']
FLAGS = ['-DNDEBUG']
ASSUMPTIONS = [
    'ONLY the second sentence of C01 is decided ("a reported convergence is true"); the convergence-rate sentence has no bounded symbolic encoding (DESIGN section 9)',
    'the six multigrid cycle functions are replaced (in the engine and in the native replay build alike) by "assign arbitrary new values to the iterate and arbitrary junk to the scratch vector": the stop test is judged for whatever a cycle does',
    'right-hand sides (both levels) and the tolerances (>= 0) are free reals; start vector zero (FMG off; the FMG start-up is C09)',
    'independent residual: operators of the OTHER strategy built in the harness; extrapolated residual written out from the documented combination (4 r_h - r_2h(inject u))/3 on coarse nodes, 4/3 r_h elsewhere',
    'sqrt is an uninterpreted function with t >= 0, t*t = x (Ackermannised: equal arguments give equal values); exact real arithmetic (no rounding in the comparison)',
    'GMGPolar state built directly; coefficients via the small-rational libm mode; -DNDEBUG',
]
OUTSIDE = ['grids other than 9x8/5x4', 'the convergence rate (first sentence)', 'floating-point effects in the comparison']
BOUNDS = {'quick': '2-level 9x8/5x4; max_iterations in {1,2}; extrapolation in {none, implicit} with 2 iterations, {full-grid smoothing, combined} with 1 iteration; Euclidean, weighted Euclidean and maximum norm, each with the absolute test; tolerance modes both / abs only / rel only',
          'thorough': 'max_iterations in {1,2,3}; extrapolation 0-3; three norm types; both strategies and boundary modes; three tolerance modes'}


def jobs(tier, seed):
    J = []
    q = tier == 'quick'

    def add(ex, strat, dirbc, norm, maxit, tolmode, cyc=0, geo=1, prof=3, diff=False):
        J.append(dict(entry='h_stop_true', args=[ex, strat, dirbc, norm, maxit, tolmode, cyc, geo, prof],
                      label=f'stop ex={ex} strategy={strat} dirbc={dirbc} norm={norm} maxit={maxit} tol={tolmode}', cls='stop', reach=['setup-done', 'solve-returned', 'stopped-early'],
                      eager=True, feas_timeout=8, libm_small=True, diff=diff, witness=False, cap_quick=120, cap_thorough=300, point_refutation=False))
    if q:
        add(0, 1, 0, 0, 2, 0, diff=True)
        add(1, 1, 1, 0, 2, 0)
        add(0, 0, 1, 2, 2, 1)
        add(1, 0, 0, 2, 1, 2)
        add(0, 1, 0, 1, 1, 2)
        add(2, 1, 0, 0, 1, 1)
        add(3, 0, 1, 0, 1, 1)
        # every norm type with the absolute tolerance firing (a wrong scaling of the norm cancels in the relative test)
        add(0, 0, 1, 1, 1, 1)
        add(1, 1, 0, 1, 1, 0)
    else:
        for ex in (0, 1, 2, 3):
            for norm in (0, 1, 2):
                for maxit in (1, 2, 3):
                    for tolmode in (0, 1, 2):
                        strat, dirbc = (ex + norm) % 2, (maxit + tolmode) % 2
                        if maxit == 3 and (norm == 1 or tolmode == 0):
                            continue
                        add(ex, strat, dirbc, norm, maxit, tolmode, cyc=(ex + maxit) % 3, geo=(norm % 2), prof=(tolmode * 3) % 4)
    return J


LEVEL_TEXT = ('Bounded symbolic verification of the stop logic of the real GMGPolar::solve(): executed on a two-level hierarchy with symbolic right-hand sides, symbolic tolerances and '
              'arbitrary (symbolic) iterates produced by stubbed cycles; every path that leaves the iteration loop early is followed (path forking on the real convergence test) and '
              'z3 proves that the residual recomputed by independently built operators of the other strategy (with the documented extrapolated combination) meets the tolerance '
              'that fired, in the configured norm. Decides only the "a reported convergence is true" half of C01.')
LEVEL_NOTE = 'first sentence of C01 (convergence with rate < 1) NOT decided; 9x8/5x4 only; cycles abstracted to arbitrary updates; exact arithmetic; sqrt uninterpreted with axioms'
TECHNIQUE = 'symbolic execution of LLVM IR (llsym) with path forking on the convergence test + SMT (z3 QF_NRA with Ackermannised sqrt)'
DESIGN_REF = 'DESIGN.md section 0 (status as built: 0.2, 0.5, 0.6) and section 6/C01 (design)'
