# properties not (yet) claimed, with the reason; tools/gen_manifest.py drops an entry once props/<id>.py exists
HOOK_COMMITS = []
NOT_APPLICABLE = {
    'C02': 'order of accuracy is a limit statement over a refinement family of converged solves (33x64 ... 513x1024 unknowns, transcendental solutions); there is no bounded real-arithmetic encoding an SMT solver could decide (DESIGN section 9)',
}
