from llsym.build import CORE, GMG, GEOM
from llsym import omp
ID = 'C12'
SOURCES = CORE + GMG + GEOM + [('harness/C12_kernels.cpp', ['-fopenmp'], ['-fopenmp']), 'harness/C12_paths.cpp']
# native replay: the kernels TU and the runtime are built with -fopenmp (real threads, vset_threads = omp_set_num_threads); the repository TUs stay without
RUNTIME_FLAGS = ['-fopenmp']
NATIVE_LINK_FLAGS = ['-fopenmp']
FLAGS = ['-DNDEBUG']
ASSUMPTIONS = [
    'thread-count independence is decided in exact real arithmetic ("no more than floating-point re-association"): the code path taken with omp_get_max_threads() = T in {2,3,4} equals the single-thread path, for symbolic vectors (and symbolic coefficients for the residuals); no-OpenMP build, multi-thread branch executed in program order',
    'kernels: the harness translation unit is compiled with -fopenmp; each parallel region is executed for T concrete threads one after another with libomp\'s static schedule, reductions combined under the runtime lock (valid because these regions contain no inner barrier); n = 7 (serial branch) and n = 10001 (parallel branch, the if(n > 10000) clause) with symbolic entries at up to 24 spread positions (first/last elements and the chunk borders for T = 2,3,4), the rest small rationals',
    'bit-for-bit run-to-run reproducibility with a FIXED thread count is NOT decided by a query: it follows from C11 (every element\'s updates are ordered by barriers / program order) for everything but the reduction clauses; listed as derived, not decided',
    'threads_per_level: real setup() with a symbolic reduction factor in (0,1], floor() concretised by solver enumeration',
]
OUTSIDE = ['thread counts above 4 in team mode (32 threads only for a 7-element vector)', 'libgomp specifics', 'bit-level reproducibility']
BOUNDS = {'quick': 'operators on (7,8,3) and (7,12,3), T in {2,3}; kernels n in {7, 10001} x T in {1,2,3,4} (+ T = 32 on n = 7)', 'thorough': '+ (9,8,auto) (9,16,auto), T = 4; all kernels at every T'}


def hook_team(m, job):
    omp.install(m, 'team')


HOOKS = {'team': hook_team}
KN = ['assign', 'add', 'subtract', 'linear_combination', 'multiply', 'dot_product', 'l2_norm_squared', 'infinity_norm', 'l1_norm', 'copy', 'add(threshold)']


def jobs(tier, seed):
    J = []
    q = tier == 'quick'
    for (nr, nt, nC) in ([(7, 8, 3), (7, 12, 3)] if q else [(7, 8, 3), (7, 12, 3), (9, 8, -1), (9, 16, -1), (9, 8, 4)]):
        for op in range(6):
            for T in ((2, 3) if q else (2, 3, 4)):
                if q and ((op + T + nt) % 2):
                    continue
                dirbc = (op + T) % 2
                J.append(dict(entry='h_threads', args=[nr, nt, nC, dirbc, op, T], label=f'threads {nr}x{nt} op={op} T={T} dirbc={dirbc}', cls='threads', reach=['inputs-built', 'operators-applied'],
                              eager=False, diff=(nr == 7 and nt == 8 and op in (0, 1)), batch=12))
    for n in (7, 10001):
        for k in range(10):
            for T in ((1, 2, 3, 4) if (not q or k in (5, 7, 3)) else (2, 3)):
                if n == 7 and T not in (1, 4) and q:
                    continue
                J.append(dict(entry='h_kernel', args=[n, T, k, 0], label=f'kernel {KN[k]} n={n} T={T}', cls='kernel', reach=['inputs-built', 'kernel-done'], eager=(k == 7), feas_timeout=10,
                              machine_hook='team', threads=T, batch=32, witness=False, max_paths=64, cap_quick=120))
    J.append(dict(entry='h_kernel', args=[7, 32, 5, 0], label='kernel dot_product n=7 T=32 (more threads than elements)', cls='kernel', reach=['kernel-done'], eager=False, machine_hook='team', threads=32, witness=False))
    J.append(dict(entry='h_kernel', args=[7, 32, 10, 3], label='kernel add(threshold m=3) n=7 T=32', cls='kernel', reach=['kernel-done'], eager=False, machine_hook='team', threads=32, witness=False))
    for lev3 in (0, 1):
        J.append(dict(entry='h_threads_per_level', args=[4, lev3], label=f'threads_per_level max=4 levels={3 if lev3 else 2}', cls='threads-per-level', reach=['setup-done'], eager=True, feas_timeout=10,
                      concretize=True, libm_small=True, witness=False, max_paths=40))
    return J


LEVEL_TEXT = ('Bounded symbolic verification: (1) for every operator with a distinct multi-thread code path the output with T threads is proved equal to the single-thread output for ALL '
              'vectors (all coefficients for the residuals); (2) the OpenMP-lowered vector kernels are executed from their -fopenmp IR for T concrete threads (static schedule, '
              'reductions) below and above the 10 000-element threshold and proved equal to their definitions; (3) the per-level thread counts stay in [1, max] for every reduction '
              'factor. Bit-for-bit reproducibility is derived from C11, not decided.')
LEVEL_NOTE = 'exact arithmetic; T <= 4 (32 on a 7-vector); symbolic entries at <= 24 positions of the 10001-vectors; bitwise reproducibility not decided'
TECHNIQUE = 'symbolic execution of LLVM IR (llsym) incl. clang\'s OpenMP lowering run for T modelled threads + SMT (z3 QF_NRA / cvc5 QF_LRA)'
DESIGN_REF = 'DESIGN.md section 0 (status as built: 0.2, 0.5, 0.6) and section 6/C12 (design)'
