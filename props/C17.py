ID = 'C17'
SOURCES = ['repo:src/PolarGrid/*.cpp', 'harness/C17.cpp']
FLAGS = ['-DNDEBUG']
ASSUMPTIONS = [
    'symbolic integers nr >= 2, ntheta >= 2, 0 <= nC <= nr with nr * ntheta <= 2^31 - 1 (the node count fits the int the API returns); mathematical integers with an overflow obligation for every arithmetic instruction executed on them',
    'the representation invariant of initializeLineSplitting (length = nr - nC, node counts = products) is assumed for the symbolic state and checked on concrete shapes (h_split)',
    'wrap: unwrapped angular index in [-2^30, 2^30]; modulo path with symbolic ntheta, bit-mask path with ntheta = 2^e concrete, e = 1..12',
    'neighbour / spacing / coordinate queries: concrete shapes with symbolic coordinate arrays',
    '-DNDEBUG build (index asserts are what is being proved)',
]
OUTSIDE = ['nr * ntheta >= 2^31', 'power-of-two flag beyond n = 4096 (checked concretely)']
BOUNDS = {'quick': 'symbolic sizes (generic and ntheta = 2^e, e in 1,2,3,5,8,12); concrete shapes nr <= 9, ntheta in {4,6,8,12}; splitting radius symbolic on 3 shapes',
          'thorough': 'e = 1..20; concrete shapes nr 3..11 x ntheta {2,4,6,8,10,12,16}; splitting radius on all of them'}


def jobs(tier, seed):
    J = []
    q = tier == 'quick'
    exps = [-1] + ([1, 2, 3, 5, 8, 12] if q else list(range(1, 21)))
    for e in exps:
        nm = 'generic' if e < 0 else f'2^{e}'
        for entry, reach in (('h_index_roundtrip', 'indexed'), ('h_multiindex_roundtrip', 'decoded'), ('h_wrap', 'wrapped')):
            J.append(dict(entry=entry, args=[e], label=f'{entry[2:]} ntheta={nm}', cls=entry[2:], reach=[reach], eager=True, feas_timeout=10, witness=True,
                          cap_quick=120, cap_thorough=300))
    J.append(dict(entry='h_pow2_flag', args=[], label='power-of-two flag', cls='pow2', reach=['flags-compared'], eager=False, witness=False, no_obligations_ok=True))
    shapes = [(5, 4, 2), (6, 6, 3), (7, 8, -1), (9, 12, 4), (4, 4, 0), (4, 4, 4), (3, 2, 1)] if q else \
        [(nr, nt, nC) for nr in (3, 4, 5, 7, 9, 11) for nt in (2, 4, 6, 8, 10, 12, 16) for nC in (0, 1, 2, nr // 2, nr, -1)]
    for (nr, nt, nC) in shapes:
        J.append(dict(entry='h_shape', args=[nr, nt, nC], label=f'shape {nr}x{nt} nC={nC}', cls='shape', reach=['grid-built'], eager=False, diff=(nr == 5)))
    sshapes = [(5, 4), (7, 8), (9, 12)] if q else [(nr, nt) for nr in (3, 5, 7, 9, 11) for nt in (4, 8, 12)]
    for (nr, nt) in sshapes:
        J.append(dict(entry='h_split', args=[nr, nt, 0], label=f'split {nr}x{nt} symbolic radius', cls='split', reach=['grid-built'], eager=True, feas_timeout=10, fork_int_selects=True))
        J.append(dict(entry='h_split', args=[nr, nt, 1], label=f'split {nr}x{nt} automatic', cls='split', reach=['grid-built'], eager=False, diff=True))
    return J


LEVEL_TEXT = ('Bounded symbolic verification with symbolic INTEGERS: the real inline index / multiIndex / fastIndex / wrapThetaIndex are executed on a grid state whose sizes and split are '
              'symbolic integers; z3 proves over mathematical integers (with an overflow obligation per arithmetic instruction) that the two maps are mutually inverse, in range, '
              'equal to the documented numbering, that the split partitions the nodes and that the wrap is periodic and congruent for every offset, for ALL sizes with '
              'nr*ntheta < 2^31; neighbour/spacing/coarsening queries are proved on concrete shapes with symbolic coordinates, the split for an arbitrary symbolic splitting radius.')
LEVEL_NOTE = 'sizes bounded only by nr*ntheta < 2^31 for the numbering; bit-mask wrap per concrete power of two; neighbour queries on listed shapes'
TECHNIQUE = 'symbolic execution of LLVM IR (llsym) with symbolic integers (Int + overflow obligations) + SMT (z3 QF_NIA/QF_LIA)'
DESIGN_REF = 'DESIGN.md section 0 (status as built: 0.2, 0.5, 0.6) and section 6/C17 (design)'
