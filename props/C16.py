import random
ID = 'C16'
SOURCES = ['harness/C16.cpp']
FLAGS = ['-DNDEBUG']
ASSUMPTIONS = [
    'exact real arithmetic ("to rounding accuracy" is decided as equality in R)',
    'every U(j,j) the factorisation divides by is non-zero (premise) and the solve-time guard |U(i,i)| >= 1e-12 holds; the guard\'s exit(EXIT_FAILURE) path counts as "rejected"',
    'separately (n <= 3): if every pivot of the elimination without pivoting (computed by the harness on the dense symbolic matrix) is at least 1e-9 in modulus, the solver returns - a zero on the matrix\'s own diagonal must not be rejected',
    'separately: strict row diagonal dominance with positive diagonal and margin >= 1e-9 makes the exit path infeasible and every pivot non-zero (n <= 3); with a margin below the guard (1e-12) the solver may reject a dominant matrix',
    'std::unordered_map iteration order = libstdc++ node order under a next-prime rehash policy (two different prime offsets are run)',
]
OUTSIDE = ['n > 5 with symbolic entries (numeric entries through C04)', 'other hash iteration orders than the two modelled policies', 'rounding']
BOUNDS = {'quick': 'n = 1,2 all patterns; n = 3 all 64 patterns x 4 column orders; n = 4: 48 sampled patterns (VERIF_SEED) + dense; n = 5 dense + 3 banded/arrow; both constructors + nz_per_row; 1-2 rhs',
          'thorough': 'n <= 3 all patterns x orders x constructors; n = 4 all 4096 patterns; n = 5 dense, banded, arrow'}


def pat_bits(n, pairs):
    b = 0
    for (i, j) in pairs:
        b |= 1 << (i * n + j)
    return b


def jobs(tier, seed):
    J = []
    q = tier == 'quick'
    rnd = random.Random(seed)

    def add(n, pat, order, ctor, nrhs, premise=0, bias=0, diff=False):
        J.append(dict(entry='h_lu', args=[n, pat, order, ctor, nrhs, premise], label=f'lu n={n} pat={pat:#x} order={order} ctor={ctor} rhs={nrhs} prem={premise} bias={bias}',
                      cls={0: 'lu', 1: 'lu-dominant', 2: 'lu-admits-factorisation'}[premise], reach=['factorised'], expect='any' if premise == 0 else 'return',
                      eager=(premise >= 1), rehash_bias=bias, diff=diff, div_safety=(premise == 1), feas_timeout=20))
    add(1, 0, 0, 0, 1)
    add(1, 0, 0, 1, 2)
    offd2 = [(0, 1), (1, 0)]
    for m in range(4):
        pat = pat_bits(2, [p for k, p in enumerate(offd2) if m >> k & 1])
        for order in (0, 1):
            add(2, pat, order, m % 3, 2, diff=(m == 3 and order == 1))
    offd3 = [(i, j) for i in range(3) for j in range(3) if i != j]
    for m in range(64):
        pat = pat_bits(3, [p for k, p in enumerate(offd3) if m >> k & 1])
        orders = (0, 1, 2, 3) if (not q or True) else (m % 4,)
        for order in orders:
            add(3, pat, order, (m + order) % 3, 1 + (m % 2), bias=(m % 2) * 4, diff=(m == 63 and order == 2))
    offd4 = [(i, j) for i in range(4) for j in range(4) if i != j]
    masks = list(range(4096)) if not q else sorted(set([4095, 0] + [rnd.randrange(4096) for _ in range(48)]))
    for m in masks:
        pat = pat_bits(4, [p for k, p in enumerate(offd4) if m >> k & 1])
        add(4, pat, m % 4, m % 3, 1 + (m % 2), bias=(m % 3) * 4)
    dense5 = pat_bits(5, [(i, j) for i in range(5) for j in range(5) if i != j])
    band5 = pat_bits(5, [(i, j) for i in range(5) for j in range(5) if abs(i - j) == 1])
    arrow5 = pat_bits(5, [(0, j) for j in range(1, 5)] + [(i, 0) for i in range(1, 5)])
    rarrow5 = pat_bits(5, [(4, j) for j in range(4)] + [(i, 4) for i in range(4)])
    for k, pat in enumerate((dense5, band5, arrow5, rarrow5)):
        add(5, pat, k % 4, k % 3, 1, diff=(k == 0))
        add(5, pat, (k + 1) % 4, (k + 1) % 3, 2, bias=4)
    # dominance => no rejection, pivots non-zero
    for n in (1, 2, 3):
        full = pat_bits(n, [(i, j) for i in range(n) for j in range(n) if i != j])
        add(n, full, 1, 0, 1, premise=1)
    # LU without pivoting exists (all pivots >= 1e-9 in modulus) => the solver returns, whatever the matrix's own diagonal holds
    for n in (2, 3):
        full = pat_bits(n, [(i, j) for i in range(n) for j in range(n) if i != j])
        add(n, full, 0, 0, 1, premise=2)
        add(n, full, 1, 1, 1, premise=2)
    add(3, pat_bits(3, [(0, 1), (1, 0), (1, 2), (2, 1)]), 2, 2, 1, premise=2)
    return J


LEVEL_TEXT = ('Bounded symbolic verification of the real SparseLUSolver/SparseMatrixCSR headers (including libstdc++\'s unordered_map code, executed from IR): all stored '
              'entries and right-hand sides are free reals; z3 proves A*solveInPlace(b) = b for every value with non-vanishing pivots, for every sparsity pattern up to n = 3 '
              '(4 in thorough), unsorted column orders, both CSR constructors and the nz_per_row path, 1-2 successive right-hand sides. Dimensions are bounded.')
LEVEL_NOTE = 'exact arithmetic; n <= 5; hash iteration order as modelled (two rehash policies); -DNDEBUG build; exit(EXIT_FAILURE) on |U_ii| < 1e-12 is "rejected"'
TECHNIQUE = 'symbolic execution of LLVM IR (llsym) + SMT (z3 QF_NRA), path forking on the solver\'s own pivot guard'
DESIGN_REF = 'DESIGN.md section 0 (status as built: 0.2, 0.5, 0.6) and section 6/C16 (design)'
