from llsym.build import CORE
ID = 'C05'
SOURCES = CORE + ['harness/C05.cpp']
FLAGS = []
ASSUMPTIONS = [
    'exact real arithmetic',
    'grid invariant r_0 > 0, h_i > 0, k_j > 0, antipodal periodicity; coefficients arr > 0, att > 0, beta >= 0, detDF != 0, and for positivity 4 arr att >= art^2 (the algebraic consequence of arr, att, art coming from a Jacobian)',
    'A restricted to the non-Dirichlet unknowns: vectors vanish on Dirichlet nodes, Dirichlet rows are dropped',
    'positivity: for ALL coefficients only the necessary condition A_ii > 0 is decided; strict definiteness <Ax,x> > 0 is decided as one query on the smallest grid with small-rational numeric coefficient sets (12-16 unknowns)',
]
OUTSIDE = ['strict definiteness as a single query beyond 16 unknowns', 'shapes other than listed', 'rounding']
BOUNDS = {'quick': 'symmetry: (5,4,2) (6,4,3) (7,8,3) (9,8,auto) x both modes x both strategies; definiteness: (5,4,2) Dirichlet (12 unknowns) and across the origin (16 unknowns, 2 coefficient variants); line blocks (5,4,2) (7,8,3)',
          'thorough': 'symmetry and line blocks on nr 5..9 x ntheta {4,8,12}; definiteness also across the origin (16 unknowns) and 3 coefficient variants'}


def jobs(tier, seed):
    J = []
    q = tier == 'quick'
    shapes = [(5, 4, 2), (6, 4, 3), (7, 8, 3), (9, 8, -1)] if q else [(nr, nt, nC) for nr in (5, 6, 7, 8, 9) for nt in (4, 8, 12) for nC in (2, 3, -1) if nC < nr - 2]
    for (nr, nt, nC) in shapes:
        for dirbc in (0, 1):
            for strat in (0, 1):
                J.append(dict(entry='h_symmetry', args=[nr, nt, nC, dirbc, strat, 1 if (nr + strat) % 2 else -1], label=f'symmetry {nr}x{nt} nC={nC} dirbc={dirbc} strategy={strat}',
                              cls='symmetry', reach=['columns-computed'], eager=False, diff=(nr == 5)))
    # node-local energy (h_local_energy) is NOT part of the check: z3 does not decide the interior node class within
    # 240 s, and for the across-origin rows the node contribution is not sign-definite on its own (DESIGN.md, C05)
    for strat in (0, 1):
        J.append(dict(entry='h_definite', args=[5, 4, 2, 1, strat, strat], label=f'definite 5x4 dirbc strategy={strat}', cls='definite', reach=['form-built'], eager=False,
                      cap_quick=240, witness=False))
    if True:   # across the origin: 16 unknowns, ~10 s each
        for v in ((0, 1, 2) if not q else (0, 1)):
            J.append(dict(entry='h_definite', args=[5, 4, 2, 0, v % 2, v], label=f'definite 5x4 across-origin variant={v}', cls='definite', reach=['form-built'], eager=False, witness=False))
    for (nr, nt, nC) in ([(5, 4, 2), (7, 8, 3), (7, 12, 3)] if q else [(5, 4, 2), (6, 4, 3), (7, 8, 3), (8, 8, 4), (9, 8, -1), (7, 12, 3)]):
        for dirbc in (0, 1):
            for strat in (0, 1):
                J.append(dict(entry='h_line_blocks', args=[nr, nt, nC, dirbc, strat], label=f'line blocks {nr}x{nt} nC={nC} dirbc={dirbc} strategy={strat}',
                              cls='line-blocks', reach=['smoother-built'], eager=False, diff=(nr == 5 and strat == 1)))
    return J


LEVEL_TEXT = ('Bounded symbolic verification: the real residual operators and smoother constructors are executed with symbolic spacings and per-node coefficients. z3 proves for '
              'ALL coefficients/spacings that A_ij = A_ji on the non-Dirichlet unknowns (both strategies, both boundary modes), A_ii > 0, strict positivity of the whole '
              'quadratic form on the smallest grid (numeric coefficient sets), and that the tridiagonal / cyclic / inner-circle matrices the '
              'smoothers factorise are exactly the diagonal blocks of A (so they inherit symmetry and definiteness). Shapes are bounded.')
LEVEL_NOTE = 'exact arithmetic; shapes bounded; strict definiteness only on 12-16 unknowns with numeric coefficients; definiteness for all coefficients/larger grids is not decided'
TECHNIQUE = 'symbolic execution of LLVM IR (llsym) + SMT (z3 QF_NRA): entry-wise symmetry, block extraction, definiteness of a numeric quadratic form'
DESIGN_REF = 'DESIGN.md section 0 (status as built: 0.2, 0.5, 0.6) and section 6/C05 (design)'
