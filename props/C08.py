from llsym.build import CORE
ID = 'C08'
SOURCES = CORE + ['harness/C08.cpp']
FLAGS = []
ASSUMPTIONS = [
    'exact real arithmetic',
    'grid invariant: r_0 > 0, h_i > 0, k_j > 0, k_{j+ntheta/2} = k_j; coarse coordinates = every second fine coordinate (established by the real coarseningGrid, see C17)',
    'linear reproduction is asked twice: under the midpoint assumption h_{2m} = h_{2m+1}, k_{2m} = k_{2m+1} (must hold) and without it (recorded finding F1 on the current tree)',
    'linear in theta: checked away from the periodic seam (a function linear in theta is not periodic)',
]
OUTSIDE = ['pairs other than the listed shapes', 'the > 10 000 element parallel clause (no-OpenMP build; see C11/C12)']
BOUNDS = {'quick': 'fine (9,8) <- (5,4), (7,8) <- (4,4), (5,4) <- (3,2), (7,12) <- (4,6), (9,8) split 6 <- (5,4) split 2; several splits on both levels; standard and extrapolated pair',
          'thorough': 'fine nr in {5,7,9,11}, ntheta in {4,8,12}, splits -1 (automatic), 0, 2, 3, nr-1, nr on the fine and -1, 1, all-circles on the coarse level (the full cross product of splits did not finish in an hour)'}


def jobs(tier, seed):
    J = []
    q = tier == 'quick'
    if q:
        shapes = [(9, 8, -1, -1), (9, 8, 4, 2), (7, 8, 3, 2), (5, 4, 2, 1), (9, 8, 6, 4), (7, 12, 2, 2), (9, 8, 6, 2)]   # (7,12): ntheta not a power of two (wrapThetaIndex modulo branch); (9,8,6/2): coarse radial nodes whose fine partner lies in the fine circle section
    else:
        shapes = []
        for nr in (5, 7, 9, 11):
            for nt in (4, 8, 12):
                cn = (nr + 1) // 2
                for nCf in sorted(set([-1, 0, 2, 3, nr - 1, nr])):
                    for nCc in (-1, 1, cn):
                        shapes.append((nr, nt, nCf, nCc))
    for (nr, nt, nCf, nCc) in shapes:
        for ex in (0, 1):
            dirbc = (nr + nCf + ex) % 2
            J.append(dict(entry='h_transfer', args=[nr, nt, nCf, nCc, dirbc, ex], label=f'transfer {nr}x{nt} nC={nCf}/{nCc} ex={ex}', cls='transfer',
                          reach=['operators-applied'], eager=False, diff=(nCf == -1)))
            for mid in (1, 0):
                J.append(dict(entry='h_linear', args=[nr, nt, nCf, nCc, dirbc, ex, mid], label=f'linear {nr}x{nt} nC={nCf}/{nCc} ex={ex} midpoint={mid}',
                              cls='linear-midpoint' if mid else ('linear-nonmidpoint-ex' if ex else 'linear-nonmidpoint'), reach=['prolongated'], eager=False, diff=(nCf == -1 and mid == 1)))
    return J


LEVEL_TEXT = ('Bounded symbolic verification of the real Interpolation operators: coarse/fine vectors and all grid spacings are free reals; z3 proves for ALL spacings and vectors '
              'that restriction is the transpose of prolongation (row by row against columns of P), optimised = reference implementations, inject(P x) = x, weights are '
              'non-negative and sum to one, and linear functions are reproduced (under the midpoint assumption; without it the solver returns the recorded counterexample F1). '
              'Grid shapes and splits are bounded.')
LEVEL_NOTE = 'exact arithmetic; shapes bounded as listed; linear reproduction without the midpoint assumption is a recorded known finding (known_findings.json)'
TECHNIQUE = 'symbolic execution of LLVM IR (llsym) + SMT (z3 QF_NRA) with symbolic grid spacings'
DESIGN_REF = 'DESIGN.md section 0 (status as built: 0.2, 0.5, 0.6) and section 6/C08 (design)'
